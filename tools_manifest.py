#!/usr/bin/env python3
"""Regenerates MANIFEST.json from the table below (keeps it valid and consistent)."""
import json, os
HERE = os.path.dirname(os.path.abspath(__file__))

BUILT = {
 "C01": ("EM motive-list files: seeded sessions write/overwrite/restart/load on SimFS with disk faults and crashes; "
         "independent EM byte parser + row model; recovery obligation after faults", "4/C01"),
}
PLANNED = {}
BUILT["C20"] = ("thickness pairing under simulated worker threads: the numba prange kernel's Python source is driven by 1..4 baton-passing "
                "workers with seeded iteration assignment, line-level pre-emption (sys.settrace) and stalls; measure_thickness_cpu is run "
                "on the original, rigidly moved, voxel-rescaled and role-swapped geometry; brute-force candidate sets + greedy-matching "
                "invariants; compiled kernel single-threaded as cross-check; logical clock", "4/C20")
BUILT["C14"] = ("map rotation/placement/windowing/symmetrisation under a hostile allocator: every operation runs twice per step under two "
                "legal np.empty behaviours (zero, NaN, 1e30, -7, stale previous result) and must give identical results that satisfy the "
                "active-rotation voxel model (all 24 cube rotations per box), blob-moves-to-Rv, inverse restores, stamping, window and "
                "mean-of-rotations models; inputs also come from EM/MRC files on SimFS with read faults", "4/C14")
BUILT["C08"] = ("set algebra over histories: seeded sessions drive up to four live lists through subset/remove/split (memory and files)/"
                "intersection/drop-duplicates/merge-and-renumber/merge-and-drop-duplicates (live objects and saved paths)/renumber "
                "particles/renumber objects with save->restart->load in between; pure-Python row-set model stepped in lock-step; "
                "faults only on the file-touching steps", "4/C08")
BUILT["C05"] = ("pose bookkeeping over histories: seeded sessions drive up to three live lists through update/scale/shift/rotate/flip "
                "(dimensions as list, table, array or file), inplace=False copies and save->restart->load through EM files; pose model "
                "(position vector + explicit 3x3 matrix per particle) stepped in lock-step; faults only on the file-touching steps", "4/C05")
BUILT["C17"] = ("tilt-series metadata: foreign microscope/processing actor populates a TS_$xxx tree (mdoc, tlt, dose, Gctf STAR, CTFFIND4, "
                "dimension, z-shift files) from a grammar and keeps ground truth; seeded sessions open/sort/prune/write/re-read mdocs, "
                "call the loaders on files and arrays, build STOPGAP/EM wedge lists (single, batch) with output files; missing/stale "
                "files, disk faults, crashes; independent mdoc/STAR/EM parsers. The wedge_list console script cannot be imported "
                "here (numpydoc missing), so the functions it dispatches to are driven directly", "4/C17")
BUILT["C15"] = ("tilt-stack operations: foreign acquisition actor drops MRC stacks and tilt/index files; seeded sessions run sort/remove/"
                "split/flip/crop/bin with array (xyz|zyx) or file input, array/list/file tilts and indices, output files chained into "
                "later operations; disk faults and crashes; selection/permutation model + independent MRC parser", "4/C15")
BUILT["C03"] = ("RELION conversion: seeded sessions export lists to RELION 3.0/3.1/4.0 tables and STAR files (name formats, optics on/off, "
                "interleaved versions from one object), restart, import from file and memory, run the emmotl2relion/relion2emmotl/"
                "relion2stopgap/stopgap2relion pipelines; independent RELION writer with px/Angstrom origins; disk faults and crashes; "
                "explicit ZYZ/zxz matrix convention + row model + independent STAR tokenizer", "4/C03")
BUILT["C04"] = ("STOPGAP conversion: seeded sessions hold tables/Motl/StopgapMotl (arbitrary index labels), filter in place, convert, "
                "write .star/.em with update_coord/reset_index, restart, load; foreign STOPGAP writer; disk faults and crashes; "
                "renaming-table + parity model, independent STAR tokenizer and EM parser", "4/C04")
BUILT["C11"] = ("MRC/REC/EM map files: seeded sessions write/read/convert over a shared namespace with foreign (other-software) files, "
                "overwrite refusal, restarts, disk faults and crashes; independent MRC and EM byte parsers + array model", "4/C11")
BUILT["C02"] = ("STAR files: seeded sessions write/read lists of tables; foreign actor drops STAR texts in every permitted layout "
                "(comments, blank lines, #n suffixes, tabs/space runs, CRLF, no final newline); disk faults, crashes, restarts; "
                "independent STAR tokenizer + block/column/row model", "4/C02")
NA = {
 "C06": "pure functions of their array arguments (rotation geometry); no file, history, schedule, clock or allocator dependence for a simulator to vary - input sampling alone would be property-based testing, not simulation (DESIGN.md section 5)",
 "C07": "pure selection rule on one call's arguments (distance suppression / peak extraction); nothing for a scheduler or fault injector to vary (DESIGN.md section 5)",
 "C09": "pure set-membership predicates on positions; no I/O, state or schedule on the stated path (DESIGN.md section 5)",
 "C10": "pure function (cyclic symmetry expansion) (DESIGN.md section 5)",
 "C12": "pure Fourier filters of an in-memory array (DESIGN.md section 5)",
 "C13": "pure mask generators (DESIGN.md section 5)",
 "C16": "pure arithmetic on a stack and a dose vector (DESIGN.md section 5)",
 "C18": "pure nearest-neighbour computation on one call's arguments (DESIGN.md section 5)",
 "C19": "single call whose internal state never crosses an API boundary; no history or schedule to drive (DESIGN.md section 5)",
}

def main():
    props = [json.loads(l)["id"] for l in open(os.path.join(HERE, "properties.jsonl"))]
    checks = []
    for pid in props:
        if pid in BUILT:
            text, ref = BUILT[pid]
            checks.append({
                "property_id": pid,
                "quick_cmd": "bin/check %s --tier quick" % pid,
                "thorough_cmd": "bin/check %s --tier thorough" % pid,
                "evidence_file": "evidence/%s.json" % pid,
                "replay_cmd_template": "bin/check %s --replay {path}" % pid,
                "engine": "cryosim",
                "level_claimed": {"category": "exploration", "text": text, "design_ref": "DESIGN.md section " + ref},
                "level_note": ("seeded search over op/fault schedules, not exhaustive; trusted base: cryosim (SimFS, "
                               "models, oracles), CPython io layer, numpy; real code: cryocat working tree, emfile, "
                               "mrcfile, pandas, scipy"),
                "technique": "deterministic simulation with fault injection (seeded scheduler, in-memory fault-injecting FS, reference-model oracle, ddmin replay)",
            })
    na = [{"property_id": p, "reason": NA[p]} for p in props if p in NA]
    na += [{"property_id": p, "reason": PLANNED[p]} for p in props if p in PLANNED and p not in BUILT]
    missing = [p for p in props if p not in BUILT and p not in NA and p not in PLANNED]
    na += [{"property_id": p, "reason": "simulation check not built yet in this round (claimed in DESIGN.md; to be added)"} for p in missing]
    man = {
        "version": 1,
        "setup_cmd": "bin/setup",
        "hooks": {"guard": "CRYOCAT_VERIF", "enable": "no source hooks: every seam is patched from outside (cryosim.simfs, allocator proxy, prange stepping); bin/check exports CRYOCAT_VERIF=1 for uniformity",
                  "baseline_off_cmd": "cd /repo && /venv/bin/python -m pytest -q -p no:cacheprovider --timeout=900 --continue-on-collection-errors",
                  "source_commits": [], "add_only": True},
        "engines": [{"name": "cryosim", "path": "cryosim/", "serves_properties": sorted(BUILT),
                     "kind_free_text": "single-process deterministic workstation simulator: seeded scheduler, SimFS with durability model and fault injection, poisoning allocator, baton-passing prange stepping, reference models, ddmin + JSON replay"}],
        "checks": checks,
        "not_applicable": na,
        "notes": "Exit codes: 0 held / 1 VIOLATION / 2 harness error. known_findings.json lists recorded and fixed defects.",
    }
    json.dump(man, open(os.path.join(HERE, "MANIFEST.json"), "w"), indent=1)
    print("MANIFEST.json: %d checks, %d not_applicable" % (len(checks), len(na)))

if __name__ == "__main__":
    main()

"""Command-line driver: batches of seeded simulated runs, evidence, known findings, replay.

Exit codes: 0 property held on everything explored (KNOWN-FINDING lines allowed);
            1 violation (a line ``VIOLATION property=<id> replay=<path>`` is printed);
            2 harness error / timeout / nondeterminism (never a VIOLATION line).
"""
import argparse
import faulthandler
import json
import multiprocessing
import os
import subprocess
import sys
import time
import traceback
from concurrent.futures import ProcessPoolExecutor, as_completed

HERE = os.path.dirname(os.path.abspath(__file__))
VERIF = os.path.dirname(HERE)
sys.path.insert(0, VERIF)
REPO = os.environ.get("CRYOSIM_REPO", "/repo")
sys.path.insert(0, REPO)

from cryosim.prng import derive  # noqa: E402

PROPS = {
    "C01": ("cryosim.props.c01", "C01"),
    "C02": ("cryosim.props.c02", "C02"),
    "C03": ("cryosim.props.c03", "C03"),
    "C04": ("cryosim.props.c04", "C04"),
    "C05": ("cryosim.props.c05", "C05"),
    "C08": ("cryosim.props.c08", "C08"),
    "C11": ("cryosim.props.c11", "C11"),
    "C14": ("cryosim.props.c14", "C14"),
    "C15": ("cryosim.props.c15", "C15"),
    "C17": ("cryosim.props.c17", "C17"),
    "C20": ("cryosim.props.c20", "C20"),
}

# runs per tier: (fault-free, faulty); property modules may override with RUNS = {...}
DEFAULT_RUNS = {"quick": (1500, 1500), "thorough": (30000, 30000)}


def load_prop(pid):
    import importlib
    modname, cls = PROPS[pid]
    mod = importlib.import_module(modname)
    return getattr(mod, cls)()


def load_known(pid):
    path = os.path.join(VERIF, "known_findings.json")
    if not os.path.exists(path):
        return []
    with open(path) as f:
        data = json.load(f)
    return [e for e in data.get("findings", []) if e.get("property") == pid and e.get("status") == "known"]


def match_known(known, v):
    for e in known:
        if e.get("clause") == v["clause"] and e.get("sig") == v["sig"]:
            return e
    return None


# --------------------------------------------------------------------------- worker
def _worker(pid, tier, jobs, timeout_s, want_samples):
    faulthandler.dump_traceback_later(timeout_s, exit=True)
    from cryosim import core
    prop = _PROP_CACHE.get(pid) or load_prop(pid)
    out = []
    if os.environ.get("CRYOSIM_SELFTEST_WORKER_FAILURE"):      # self-test of the failure path only (bin/selftest)
        raise core.HarnessError("injected worker failure")
    for seed, faulty in jobs:
        try:
            r = core.run_seed(prop, seed, tier, faulty, keep_trace=want_samples and len(out) < 1)
        except core.HarnessError:
            raise
        finally:
            _HISTORY.append((seed, faulty))
        d = {"seed": seed, "faulty": faulty, "digest": r.digest, "nsteps": r.nsteps, "stats": r.stats,
             "probes": r.probes, "fired": r.fired, "fs_states": r.fs_states, "shape": r.shape, "sets": r.sets,
             "nontrivial": r.nontrivial, "violation": r.violation, "prims": r.prims, "wall": r.wall}
        if r.violation:
            d["trace"] = r.trace
            d["history"] = list(_HISTORY)
        elif r.trace is not None:
            d["sample"] = r.trace
        out.append(d)
    faulthandler.cancel_dump_traceback_later()
    return out


_ABANDONED_POOL = []   # non-empty: leave through os._exit (interpreter shutdown would join the pool's threads)
_PROP_CACHE = {}
_HISTORY = []   # every (seed, faulty) this worker process has executed so far, in order


def run_batch(pid, tier, jobs, workers, chunk, timeout_s, wall_cap):
    """jobs: list of (seed, faulty).  Returns list of per-run dicts in job order."""
    _PROP_CACHE[pid] = load_prop(pid)  # import cryoCAT once, before forking
    if hasattr(_PROP_CACHE[pid], "warmup"):
        _PROP_CACHE[pid].warmup()      # e.g. JIT-compile once in the parent
    if workers <= 1:
        return _worker(pid, tier, jobs, timeout_s, True)
    ctx = multiprocessing.get_context("fork")
    chunks = [jobs[i:i + chunk] for i in range(0, len(jobs), chunk)]
    results = [None] * len(chunks)
    t0 = time.monotonic()
    ex = ProcessPoolExecutor(max_workers=workers, mp_context=ctx)
    futs = {ex.submit(_worker, pid, tier, c, timeout_s, i < 3): i for i, c in enumerate(chunks)}
    try:
        for fut in as_completed(futs, timeout=wall_cap):
            results[futs[fut]] = fut.result()
    except BaseException:
        # a worker raised (harness error), died or ran into the wall cap: never wait for the pool - joining an
        # executor whose workers were killed can block forever; the caller reports exit 2 and leaves via os._exit
        for f in futs:
            f.cancel()
        for p in list((getattr(ex, "_processes", None) or {}).values()):
            try:
                p.kill()
            except Exception:
                pass
        ex.shutdown(wait=False, cancel_futures=True)
        _ABANDONED_POOL.append(ex)
        raise
    ex.shutdown(wait=True)
    out = []
    for r in results:
        out.extend(r)
    return out


def make_jobs(base, n_ff, n_ft):
    jobs = [(derive(base, "ff/%d" % i), False) for i in range(n_ff)]
    jobs += [(derive(base, "ft/%d" % i), True) for i in range(n_ft)]
    return jobs


# --------------------------------------------------------------------------- evidence
def write_evidence(pid, tier, base, results, wall, violations, known_hits, prop, extra=None):
    from collections import Counter
    stats, probes, fired = Counter(), Counter(), Counter()
    fs_states, shapes, digests_nt = set(), set(), set()
    named = {}
    steps = prims = 0
    for r in results:
        for k, v in (r.get("sets") or {}).items():
            named.setdefault(k, set()).update(v)
        stats.update(r["stats"])
        probes.update(r["probes"])
        fired.update(r["fired"])
        fs_states.update(r["fs_states"])
        shapes.add(r["shape"])
        steps += r["nsteps"]
        prims += r["prims"]
        if r["nontrivial"]:
            digests_nt.add(r["digest"])
    samples = []
    for r in results:
        if "sample" in r and len(samples) < 2:
            t = r["sample"]
            samples.append({"seed": t["seed"], "faulty": t["faulty"], "config": t["config"],
                            "steps": _abbrev(t["steps"]), "log": [
                                {"n": e["n"], "op": e["op"], "out": e["out"], "res": e["res"],
                                 "io": [x for x in e["io"]][:12]} for e in t["log"]]})
    seeds = [r["seed"] for r in results]
    n_ff = sum(1 for r in results if not r["faulty"])
    ev = {
        "property_id": pid, "tier": tier, "seed": int(base), "level": "exploration",
        "coverage": {
            "evaluations": len(results),
            "distinct_nontrivial": len(digests_nt),
            "rule": ("one evaluation = one simulated run (a seeded sequence of API calls by simulated sessions, "
                     "restarts, foreign-actor writes and armed faults against the real cryoCAT code on SimFS); "
                     "distinct = distinct SHA-256 digests of the run's event log; non-trivial = the run made >= 2 "
                     "API calls, >= 1 acknowledged write/mutation and >= 1 oracle evaluation (counted with a set)"),
            "samples": samples or [{"note": "no sample kept"}],
            "fault_free_runs": n_ff, "fault_injecting_runs": len(results) - n_ff,
            "seeds": {"first": seeds[0] if seeds else None, "last": seeds[-1] if seeds else None, "count": len(seeds),
                      "derivation": "sha256(VERIF_SEED/'ff|ft'/index)"},
            "runs_per_hour": int(len(results) / wall * 3600) if wall > 0 else 0,
            "steps_total": steps,
            "simulated_time": "%d logical steps (cryoCAT has no timers; logical steps are the only clock)" % steps,
            "io_primitives": prims,
            "faults_fired": dict(sorted(fired.items())),
            "probe_hits": dict(sorted(probes.items())),
            "api_calls": stats.get("api_calls", 0), "acknowledged_writes": stats.get("acks", 0),
            "oracle_evaluations": stats.get("oracle_evals", 0), "restarts": stats.get("restarts", 0),
            "crashes": stats.get("crashes", 0), "faulted_calls": stats.get("faulted_calls", 0),
            "other_stats": {k: v for k, v in sorted(stats.items()) if k not in (
                "api_calls", "acks", "oracle_evals", "restarts", "crashes", "faulted_calls")},
            "distinct_fs_states": len(fs_states),
            "distinct_reached": {k: len(v) for k, v in sorted(named.items())},
            "distinct_op_shapes": len(shapes),
            "known_findings_hit": known_hits,
            "components": getattr(prop, "COMPONENTS", {
                "real": ["cryocat (working tree of /repo)", "emfile", "mrcfile", "pandas", "numpy", "scipy",
                         "CPython io.Buffered*/TextIOWrapper"],
                "stub": ["OS file system -> cryosim.SimFS (in-memory, fault-injecting)"]}),
        },
        "assumptions": getattr(prop, "ASSUMPTIONS", [
            "SimFS models POSIX semantics for open/truncate/write/stat/listdir/rename; no mmap, no fsync ordering",
            "behaviour during an injected fault is observed, not judged; fault-free calls are judged in every reachable state",
            "a clean batch is evidence over the sampled seeds, not a proof"]),
        "wall_s": round(wall, 2),
        "violations": violations,
    }
    if extra:
        ev["coverage"].update(extra)
    evdir = os.environ.get("CRYOSIM_EVIDENCE_DIR") or os.path.join(VERIF, "evidence")
    os.makedirs(evdir, exist_ok=True)
    with open(os.path.join(evdir, pid + ".json"), "w") as f:
        json.dump(ev, f, indent=1, sort_keys=True, default=str)
    return ev


def _abbrev(steps):
    out = []
    for s in steps:
        s2 = {}
        for k, v in s.items():
            js = json.dumps(v, default=str)
            s2[k] = v if len(js) <= 200 else js[:200] + "...(%d chars)" % len(js)
        out.append(s2)
    return out


# --------------------------------------------------------------------------- commands
def cmd_check(args):
    from cryosim import core
    pid = args.prop
    tier = args.tier
    base = int(os.environ.get("VERIF_SEED", "0") or 0)
    print("cryosim property=%s tier=%s VERIF_SEED=%d repo=%s" % (pid, tier, base, REPO), flush=True)
    prop = load_prop(pid)
    runs = dict(DEFAULT_RUNS)
    runs.update(getattr(prop, "RUNS", {}))
    n_ff, n_ft = runs[tier]
    if args.runs:
        n_ff = n_ft = args.runs
    workers = args.workers or min(16, os.cpu_count() or 1)
    jobs = make_jobs(base, n_ff, n_ft)
    chunk = max(1, min(64, len(jobs) // (workers * 4) or 1))
    wall_cap = args.wall_cap or (900 if tier == "quick" else 6 * 3600)
    _watchdog(3 * wall_cap)
    t0 = time.monotonic()
    results = run_batch(pid, tier, jobs, workers, chunk, timeout_s=wall_cap, wall_cap=wall_cap)
    extra = {}
    if hasattr(prop, "extra_checks"):
        extra = prop.extra_checks(tier, base, results) or {}
    known = load_known(pid)
    classes = {}
    for r in results:
        v = r["violation"]
        if v:
            classes.setdefault((v["clause"], v["sig"]), []).append(r)
    known_hits = {}
    new = []
    for (clause, sig), rs in sorted(classes.items()):
        e = match_known(known, rs[0]["violation"])
        if e is not None:
            known_hits["%s/%s" % (clause, sig)] = len(rs)
            print("KNOWN-FINDING: property=%s %s [%s/%s] (%d runs)" % (pid, e.get("what", ""), clause, sig, len(rs)))
        else:
            new.append(((clause, sig), rs))
    rc = 0
    rdir = os.environ.get("CRYOSIM_REPLAY_DIR") or os.path.join(VERIF, "replays")
    os.makedirs(rdir, exist_ok=True)
    for (clause, sig), rs in new:
        rs.sort(key=lambda r: len(r["trace"]["steps"]))
        budget = 60.0 if tier == "quick" else 180.0
        mini = None
        # (1) a candidate that reproduces on its own in a pristine process image (the batch ran many runs per
        #     worker process; a violation that needs state left by earlier runs does not reproduce alone)
        for cand in (rs[:4] + rs[-8:] if len(rs) > 12 else rs):
            r1 = core.replay(prop, cand["trace"])
            if core.same_class(r1.violation, cand["trace"]["violation"]):
                mini, _ok = core.minimise(prop, cand["trace"], budget_s=budget)
                break
        # (2) otherwise reproduce it as a history of runs in one process and minimise over whole runs
        if mini is None:
            cand = rs[0]
            hist = [list(j) for j in cand["history"]]
            target = cand["trace"]["violation"]

            def fails(jobs):
                r2 = core.isolated(core.run_history, prop, jobs, tier)
                return r2 is not None and core.same_class(r2.violation, target)

            if not fails(hist):
                print("HARNESS-ERROR: violation %s/%s (seed %d) reproduces neither alone nor with its process history" % (
                    clause, sig, cand["seed"]))
                return 2
            last, prefix = hist[-1], hist[:-1]
            deadline = time.monotonic() + budget
            n = 2
            while len(prefix) >= 1 and time.monotonic() < deadline:
                chunk = max(1, len(prefix) // n)
                reduced = False
                for i in range(0, len(prefix), chunk):
                    c2 = prefix[:i] + prefix[i + chunk:]
                    if fails(c2 + [last]):
                        prefix, reduced, n = c2, True, max(n - 1, 2)
                        break
                if not reduced:
                    if chunk == 1:
                        break
                    n = min(len(prefix), n * 2)
            mini = {"property": pid, "tier": tier, "history": prefix + [last], "violation": target, "seed": cand["seed"],
                    "note": "depends on process-global state left behind by the earlier runs of this history; "
                            "every run is regenerated from its seed", "steps": cand["trace"]["steps"]}
        trace = rs[0]["trace"]
        path = os.path.join(rdir, "%s-%s-%d.json" % (pid, _slug(clause + "-" + sig), mini.get("seed", trace["seed"])))
        with open(path, "w") as f:
            json.dump(mini, f, indent=1, default=str)
        # the replay file must reproduce in a fresh interpreter before it is reported
        p = subprocess.run([os.path.join(VERIF, "bin", "check"), pid, "--replay", path, "--quiet"],
                           capture_output=True, text=True, timeout=900)
        if p.returncode != 1:
            print("HARNESS-ERROR: replay of %s did not reproduce in a fresh interpreter (rc=%d)\n%s\n%s" % (
                path, p.returncode, p.stdout[-2000:], p.stderr[-2000:]))
            return 2
        v = mini["violation"]
        print("violation clause=%s sig=%s runs=%d steps=%d (from %d)%s\n  %s" % (
            clause, sig, len(rs), len(mini["steps"]), len(trace["steps"]),
            " history=%d runs" % len(mini["history"]) if "history" in mini else "", v["detail"][:1500]))
        print("VIOLATION property=%s replay=%s" % (pid, path), flush=True)
        rc = 1
    wall = time.monotonic() - t0
    ev = write_evidence(pid, tier, base, results, wall, sum(len(rs) for _, rs in new), known_hits, prop, extra)
    c = ev["coverage"]
    print("runs=%d nontrivial_distinct=%d steps=%d api_calls=%d acks=%d oracle=%d faults=%s wall=%.1fs runs/h=%d" % (
        c["evaluations"], c["distinct_nontrivial"], c["steps_total"], c["api_calls"], c["acknowledged_writes"],
        c["oracle_evaluations"], sum(c["faults_fired"].values()), wall, c["runs_per_hour"]))
    if tier == "thorough" and rc == 0:
        need = getattr(prop, "MUST_REACH", {})
        dead = [k for k in need.get("probes", []) if not c["probe_hits"].get(k)] + \
               [k for k in need.get("faults", []) if not c["faults_fired"].get(k)]
        if dead:
            print("HARNESS-ERROR: the workload no longer reaches %s (probe/fault counters stuck at 0 in the thorough tier)" % dead)
            return 2
    if tier == "thorough" and rc == 0 and not args.no_selftest:
        rc = max(rc, cmd_selftest(args, n=40))
    return rc


def _slug(s):
    return "".join(ch if ch.isalnum() else "_" for ch in s)[:60]


def cmd_replay(args):
    from cryosim import core
    with open(args.replay) as f:
        trace = json.load(f)
    pid = trace["property"]
    prop = load_prop(pid)
    if hasattr(prop, "warmup"):
        prop.warmup()
    if "history" in trace:
        r = core.isolated(core.run_history, prop, [tuple(j) for j in trace["history"]], trace.get("tier", "quick"))
    else:
        r = core.replay(prop, trace)
    if r.violation:
        if not args.quiet:
            print("replayed %d steps: clause=%s sig=%s\n  %s" % (len(trace["steps"]), r.violation["clause"],
                                                               r.violation["sig"], r.violation["detail"]))
            for e in r.trace["log"]:
                print("   step %d %s %s %s io=%d" % (e["n"], e["op"], e["out"], e["res"], len(e["io"])))
        want = trace.get("violation")
        if want and not core.same_class(want, r.violation):
            print("note: recorded violation class was %s/%s" % (want["clause"], want["sig"]))
        print("VIOLATION property=%s replay=%s" % (pid, args.replay))
        return 1
    print("replay of %s: no violation (digest %s)" % (args.replay, r.digest))
    return 0


def cmd_digests(args):
    """Print {seed: digest} for the first n jobs (used by the determinism self-test)."""
    base = int(os.environ.get("VERIF_SEED", "0") or 0)
    jobs = make_jobs(base, args.n, args.n)
    res = run_batch(args.prop, args.tier, jobs, args.workers or 1, 8, 600, 1200)
    print("DIGESTS " + json.dumps({"%d/%d" % (r["seed"], r["faulty"]): r["digest"] for r in res}, sort_keys=True))
    return 0


def cmd_selftest(args, n=None):
    """Same seeds, fresh interpreters, different hash seeds and worker counts -> identical digests."""
    n = n or args.n or 25
    outs = []
    for hashseed, workers in (("0", 1), ("12345", 16), ("0", 16)):
        env = dict(os.environ, CRYOSIM_HASHSEED=hashseed)
        p = subprocess.run([os.path.join(VERIF, "bin", "check"), args.prop, "--digests", "--n", str(n),
                            "--workers", str(workers), "--tier", args.tier], env=env, capture_output=True, text=True,
                           timeout=3600)
        line = [ln for ln in p.stdout.splitlines() if ln.startswith("DIGESTS ")]
        if p.returncode != 0 or not line:
            print("HARNESS-ERROR: determinism self-test run failed (rc=%d)\n%s" % (p.returncode, p.stderr[-3000:]))
            return 2
        outs.append(json.loads(line[0][8:]))
    bad = [k for k in outs[0] if not (outs[0][k] == outs[1].get(k) == outs[2].get(k))]
    if bad:
        print("HARNESS-ERROR: nondeterminism: %d of %d runs differ between fresh interpreters, e.g. %s" % (
            len(bad), len(outs[0]), bad[:3]))
        return 2
    print("determinism self-test: %d runs x 3 fresh interpreters (PYTHONHASHSEED 0/12345, workers 1/16): identical" % len(outs[0]))
    return 0


def _watchdog(seconds):
    """last line of defence against a hang anywhere in the parent (pool management, minimisation, replay): the check
    ends with a harness error (exit 2), never by sitting there and never with a verdict"""
    import threading

    def fire():
        sys.stdout.write("HARNESS-ERROR: the check did not finish within %d s (watchdog)\n" % seconds)
        sys.stdout.flush()
        os._exit(2)

    t = threading.Timer(seconds, fire)
    t.daemon = True
    t.start()


def _scratch_base():
    """one scratch directory for the real cwd of every process of this invocation (see core._scratch_cwd)"""
    import atexit
    import shutil
    import tempfile
    base = tempfile.mkdtemp(prefix="cryosim-cwd-")
    os.environ["CRYOSIM_SCRATCH_BASE"] = base
    owner = os.getpid()
    atexit.register(lambda: os.getpid() == owner and shutil.rmtree(base, ignore_errors=True))


def main():
    _scratch_base()
    ap = argparse.ArgumentParser()
    ap.add_argument("prop")
    ap.add_argument("--tier", default=os.environ.get("VERIF_TIER") or "quick", choices=["quick", "thorough"])
    ap.add_argument("--replay")
    ap.add_argument("--runs", type=int)
    ap.add_argument("--workers", type=int)
    ap.add_argument("--wall-cap", type=int)
    ap.add_argument("--digests", action="store_true")
    ap.add_argument("--selftest", action="store_true")
    ap.add_argument("--no-selftest", action="store_true")
    ap.add_argument("--n", type=int, default=25)
    ap.add_argument("--quiet", action="store_true")
    args = ap.parse_args()
    try:
        if args.replay:
            return cmd_replay(args)
        if args.digests:
            return cmd_digests(args)
        if args.selftest:
            return cmd_selftest(args)
        return cmd_check(args)
    except SystemExit:
        raise
    except BaseException:
        traceback.print_exc()
        print("HARNESS-ERROR: %s" % sys.exc_info()[0].__name__)
        return 2


if __name__ == "__main__":
    rc = main()
    if _ABANDONED_POOL:
        sys.stdout.flush()
        sys.stderr.flush()
        import shutil
        shutil.rmtree(os.environ.get("CRYOSIM_SCRATCH_BASE", "/nonexistent"), ignore_errors=True)
        os._exit(rc if rc else 2)
    sys.exit(rc)

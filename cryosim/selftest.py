"""Framework self-tests (run by setup and on demand).  Failures here are harness errors (exit 2)."""
import errno
import os
import subprocess
import sys

HERE = os.path.dirname(os.path.abspath(__file__))
VERIF = os.path.dirname(HERE)
sys.path.insert(0, VERIF)
sys.path.insert(0, os.environ.get("CRYOSIM_REPO", "/repo"))

import numpy as np  # noqa: E402

from cryosim import simfs  # noqa: E402
from cryosim.models import em as emmodel, mrc as mrcmodel  # noqa: E402

FAILS = []


def check(cond, what):
    if not cond:
        FAILS.append(what)
        print("SELFTEST FAIL:", what)


def test_parsers():
    """Independent EM/MRC models agree with emfile/mrcfile in both directions (real temp files)."""
    import tempfile
    import emfile
    import mrcfile
    g = np.random.Generator(np.random.PCG64(5))
    with tempfile.TemporaryDirectory() as d:
        for shape in [(1, 1, 1), (3, 4, 5), (20, 7, 1), (2, 9, 4)]:
            for dt in ["float32", "int16", "int8"]:
                a = (g.standard_normal(shape) * 50).astype(dt)  # indexed [x,y,z]
                # library writes (array given as [z,y,x]), model parses
                p = os.path.join(d, "a.em")
                emfile.write(p, np.ascontiguousarray(a.transpose(2, 1, 0)), {}, overwrite=True)
                m = emmodel.parse(open(p, "rb").read())
                check(m["dims"] == shape and (m["array"] == a).all(), "em model parse %r %s" % (shape, dt))
                # model writes, library parses
                open(p, "wb").write(emmodel.build(a))
                _h, b = emfile.read(p)
                check((b.transpose(2, 1, 0) == a).all(), "em model build %r %s" % (shape, dt))
                p = os.path.join(d, "a.mrc")
                mrcfile.write(p, np.ascontiguousarray(a.transpose(2, 1, 0)), overwrite=True)
                m = mrcmodel.parse(open(p, "rb").read())
                check(m["dims"] == shape and (m["array"] == a).all(), "mrc model parse %r %s" % (shape, dt))
                for nsymbt in (0, 160):
                    open(p, "wb").write(mrcmodel.build(a, nsymbt=nsymbt))
                    with mrcfile.open(p) as f:
                        b = f.data.copy()
                    check((b.transpose(2, 1, 0) == a).all(), "mrc model build %r %s nsymbt=%d" % (shape, dt, nsymbt))


def test_simfs():
    fs = simfs.mount(simfs.SimFS(bufsize=16))
    fs.mkdir_raw("/simfs/d")
    p = "/simfs/d/f"
    # truncate at open, volatile buffer invisible until flush
    fs.put(p, b"0123456789" * 5)
    fs.begin_call("s")
    f = open(p, "wb")
    check(fs.get(p) == b"", "open('w') truncates durably at open time")
    f.write(b"abc")
    check(fs.get(p) == b"", "data in BufferedWriter is not visible to other readers")
    f.flush()
    check(fs.get(p) == b"abc", "flush commits")
    f.close()
    fs.end_call()
    # crash discards buffered data and whatever `with` blocks do afterwards
    fs.begin_call("s", [{"kind": "crash", "on": "any", "at": 2}])
    try:
        with open(p, "wb") as f:      # prim 0: open
            f.write(b"x" * 40)        # > bufsize: raw write = prim 1
            f.write(b"tail")          # buffered
        check(False, "crash did not fire")  # close -> flush -> raw write = prim 2 -> crash
    except simfs.SimCrash:
        pass
    fs.end_call()
    check(fs.get(p) == b"x" * 40, "crash: only raw-committed bytes survive, got %r" % fs.get(p))
    check(fs.fired["crash"] == 1, "crash counted")
    fs.reap_handles("s")
    # short write must be hidden by BufferedWriter, EINTR by PEP 475
    fs.begin_call("s", [{"kind": "short_write", "on": "write", "at": 0, "frac": 0.25},
                        {"kind": "eintr", "on": "write", "at": 1}])
    with open(p, "wb") as f:
        f.write(bytes(range(100)))
    fs.end_call()
    check(fs.get(p) == bytes(range(100)), "short write + EINTR hidden by CPython buffered layer")
    check(fs.fired["short_write"] == 1 and fs.fired["eintr"] == 1, "short_write/eintr counted")
    # ENOSPC with prefix
    fs.begin_call("s", [{"kind": "enospc", "on": "write", "at": 0, "frac": 0.5}])
    try:
        with open(p, "wb") as f:
            f.write(b"y" * 100)
        check(False, "enospc did not raise")
    except OSError as e:
        check(e.errno == errno.ENOSPC, "enospc errno")
    fs.end_call()
    check(fs.get(p) == b"y" * 50, "enospc leaves the committed prefix")
    # handle budget
    fs.handle_budget = 1
    fs.begin_call("s")
    a = open(p, "rb")
    try:
        open(p, "rb")
        check(False, "EMFILE not raised")
    except OSError as e:
        check(e.errno == errno.EMFILE, "EMFILE errno")
    a.close()
    fs.end_call()
    fs.handle_budget = None
    # text mode is CPython's TextIOWrapper: CRLF translation on read
    fs.put(p, b"a\r\nb\r\n")
    fs.begin_call("s")
    with open(p, "r") as f:
        check(f.read() == "a\nb\n", "universal newlines")
    check(os.path.isfile(p) and not os.path.isfile(p + "x") and os.path.isdir("/simfs/d"), "stat family")
    check(os.listdir("/simfs/d") == ["f"], "listdir")
    fs.cwd = "/simfs/d"
    check(os.path.abspath("f") == p and os.path.exists("f"), "virtual cwd")
    fs.end_call()
    check(not os.path.exists("f"), "virtual cwd only while a call is active")
    # toctou
    fs.begin_call("s", [{"kind": "toctou", "on": "stat", "at": 0}])
    ex = os.path.isfile(p)
    try:
        open(p, "rb")
        check(False, "toctou: file should be gone")
    except FileNotFoundError:
        pass
    fs.end_call()
    check(ex and fs.fired["toctou_removed"] == 1, "toctou removed the file after the check")
    # os-level descriptors, tempfile + rename
    fs.put(p, b"0123456789")
    fs.begin_call("s")
    fd = os.open(p, os.O_WRONLY | os.O_CREAT, 0o664)
    with os.fdopen(fd, "wb") as f:
        f.write(b"abc")
        f.flush()
        os.fsync(f.fileno())
    check(fs.get(p) == b"abc3456789", "os.open without O_TRUNC does not truncate")
    import tempfile
    with tempfile.NamedTemporaryFile("wb", dir="/simfs/d", delete=False) as t:
        t.write(b"fresh")
    os.replace(t.name, p)
    check(fs.get(p) == b"fresh" and sorted(os.listdir("/simfs/d")) == ["f"], "tempfile + os.replace on SimFS")
    fs.end_call()
    # C-level I/O on descriptors of simulated files: ndarray.tofile, numpy.memmap, mmap on a growing file
    import mmap
    a = np.arange(24, dtype="<i4")
    fs.begin_call("s")
    with open(p, "xb") if not os.path.exists(p) else open(p, "wb") as f:
        f.write(b"HEAD")
        a.tofile(f)
        f.write(b"TAIL")
    fs.end_call()
    check(fs.get(p) == b"HEAD" + a.tobytes() + b"TAIL", "ndarray.tofile into a simulated stream keeps positions in step")
    fs.begin_call("s")
    try:
        open(p, "xb")
        check(False, "mode 'x' on an existing file must fail")
    except FileExistsError:
        pass
    m = np.memmap(p, dtype="<i4", mode="r+", offset=4, shape=(24,))
    m[0] = 99
    m.flush()
    del m
    with open(p, "r+b") as f:
        f.truncate(4096)
        mm = mmap.mmap(f.fileno(), 4096, access=mmap.ACCESS_WRITE)
        mm[4000:4004] = b"wxyz"
        mm.flush()
        mm.close()
    b = np.fromfile(p, dtype="<i4", count=2, offset=4)
    fs.end_call()
    got = fs.get(p)
    check(len(got) == 4096 and got[4:8] == np.int32(99).tobytes() and got[4000:4004] == b"wxyz" and b[0] == 99,
          "numpy.memmap / mmap.mmap / fromfile on simulated files")
    # a directory descriptor (fsync of the directory after a rename, as careful atomic writers do)
    fs.begin_call("s")
    dfd = os.open("/simfs/d", os.O_RDONLY)
    os.fsync(dfd)
    os.close(dfd)
    fs.end_call()
    # unlink while open: the handle keeps the bytes, the name is gone
    fs.begin_call("s")
    f = open(p, "rb")
    os.remove(p)
    check(f.read(4) == b"HEAD" and not os.path.exists(p), "unlink while open")
    f.close()
    fs.end_call()
    check(len(fs.open_handles) == 0 and not fs.fds, "no leaked handles in selftest")
    fs.put(p, b"again")
    nfd = len(os.listdir("/proc/self/fd"))
    fs.destroy()
    check(len(os.listdir("/proc/self/fd")) < nfd, "destroy releases the memory files")
    simfs.mount(None)


def test_stepper():
    """fork/join stepping of prange-shaped kernels: privatisation, reductions, continue, shared prelude objects"""
    from cryosim.stepper import Stepper
    from cryosim import selftest_kernels as K

    def part(T, seed):
        import random

        def partition(idx):
            r = random.Random(seed)
            sh = [[] for _ in range(T)]
            for i in idx:
                sh[r.randrange(T)].append(i)
            return sh
        return partition

    a = np.array([3.0, -1.0, 4.0, 1.0, -5.0, 9.0, 2.0, 6.0])
    raced = 0
    for seed in range(40):
        T = 2 + seed % 3
        out = np.full(len(a), np.nan)

        def call(fn, *args):
            return Stepper(seed, T, 0.5).run(fn, args, part(T, seed))

        info = call(K.k_private, a, out)
        want = np.where(a < 0, np.nan, a * 2.0 + 1.0)
        check(info["mode"] == "fork_join" and np.array_equal(out, want, equal_nan=True), "stepper: private scalar + continue (seed %d)" % seed)
        out2 = np.zeros(len(a))
        call(K.k_two_regions, a, out2)
        check(np.array_equal(out2, (a + 1.0)[::-1]), "stepper: two parallel regions with a join in between (seed %d)" % seed)
        out3 = np.zeros(len(a))
        call(K.k_shared_scratch, a, out3)
        raced += int(not np.array_equal(out3, a))
    check(raced > 5, "stepper: a scratch buffer allocated before the loop is shared - the race must show under some schedules (%d of 40)" % raced)
    # reduction: x += ... on an outer name
    from cryosim import stepper as _st
    code, name, src = _st.transform(K.k_reduction)
    check("nonlocal total" in src, "stepper: augmented assignment to an outer name is a reduction (nonlocal)")
    code, name, src = _st.transform(K.k_private)
    check("t=__cryosim_fp__" in src.replace(" ", "") and "return" in src, "stepper: first-private default + continue->return")


def test_failure_path():
    """a worker that raises must end the check with exit 2 promptly (never a hang, never exit 0)"""
    env = dict(os.environ, CRYOSIM_SELFTEST_WORKER_FAILURE="1", CRYOSIM_EVIDENCE_DIR="/tmp/cryosim-evidence-scratch",
               CRYOSIM_REPLAY_DIR="/tmp/cryosim-evidence-scratch")
    os.makedirs("/tmp/cryosim-evidence-scratch", exist_ok=True)
    try:
        p = subprocess.run([os.path.join(VERIF, "bin", "check"), "C05", "--runs", "40"], capture_output=True, text=True, env=env, timeout=300)
        check(p.returncode == 2 and "VIOLATION" not in p.stdout, "a failing worker gives exit 2 without a VIOLATION line (rc=%d)" % p.returncode)
    except subprocess.TimeoutExpired:
        check(False, "a failing worker must not hang the check")


def test_determinism(props, n):
    rc = 0
    for pid in props:
        p = subprocess.run([os.path.join(VERIF, "bin", "check"), pid, "--selftest", "--n", str(n)],
                           capture_output=True, text=True)
        sys.stdout.write(p.stdout)
        if p.returncode != 0:
            sys.stdout.write(p.stderr[-2000:])
            FAILS.append("determinism %s" % pid)
    return rc


def main():
    test_parsers()
    test_simfs()
    test_stepper()
    test_failure_path()
    props = [a for a in sys.argv[1:] if a.startswith("C")]
    if "--determinism" in sys.argv or props:
        n = 15
        test_determinism(props or ["C01"], n)
    if FAILS:
        print("HARNESS-ERROR: %d self-test failures" % len(FAILS))
        return 2
    print("cryosim self-tests passed")
    return 0


if __name__ == "__main__":
    sys.exit(main())

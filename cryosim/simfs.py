"""SimFS - the in-memory disk the real cryoCAT code runs on (DESIGN.md section 3.3).

Everything under the virtual root ``/simfs`` lives in a dict of inodes; every other path is
passed through to the real OS untouched.  The seam is Python-level only: ``builtins.open`` /
``io.open``, a handful of ``os`` functions and ``numpy.fromfile``.  The byte streams handed to
cryoCAT, emfile, mrcfile, pandas and numpy are CPython's real ``io.Buffered*`` /
``io.TextIOWrapper`` objects stacked on a ``SimRaw`` raw stream, so buffering, newline
translation, decoding and PEP-475 retry are CPython's own code.

Durability model
  * ``SimRaw.write`` commits to the inode at once: that is what other processes see on a real OS
    (page cache).  Data still sitting in a ``BufferedWriter``/``TextIOWrapper`` is volatile.
  * ``open(..., 'w')`` truncates at open time.
  * ``crash``: a ``SimCrash`` (BaseException) is raised from the k-th I/O primitive of a call; all
    handles the crashing session holds are marked dead first, so whatever ``with`` blocks and
    finalisers do on the way out is discarded, exactly as when a process is killed.

Faults are *armed* per guarded call and addressed by (primitive class, index within the call).
A fault is counted in ``fired`` only when it actually takes effect.
"""
import builtins
import errno
import io
import os
import stat as _stat

import numpy as _np

from .prng import derive

ROOT = "/simfs"


class SimCrash(BaseException):
    """The simulated process was killed inside an I/O primitive."""


_real = {
    "open": builtins.open,
    "stat": os.stat,
    "lstat": os.lstat,
    "listdir": os.listdir,
    "scandir": os.scandir,
    "remove": os.remove,
    "unlink": os.unlink,
    "rename": os.rename,
    "replace": os.replace,
    "mkdir": os.mkdir,
    "rmdir": os.rmdir,
    "getcwd": os.getcwd,
    "chdir": os.chdir,
    "access": os.access,
    "fromfile": _np.fromfile,
    "os_open": os.open, "os_close": os.close, "os_write": os.write, "os_read": os.read, "os_fsync": os.fsync,
    "os_fdatasync": getattr(os, "fdatasync", os.fsync), "os_ftruncate": os.ftruncate, "os_lseek": os.lseek,
    "os_fstat": os.fstat, "os_chmod": os.chmod, "os_utime": os.utime, "os_chown": getattr(os, "chown", None),
    "os_fchmod": getattr(os, "fchmod", None), "os_truncate": os.truncate, "os_link": os.link,
}
_real["os_listxattr"] = getattr(os, "listxattr", None)

_FS = None  # the installed SimFS (module global; one simulated disk per process at a time)


class FdBytes:
    """The bytes of one simulated inode, held in an anonymous memory file (memfd) so that *real* descriptors
    exist for it: C-level I/O that libraries do behind Python's back (ndarray.tofile, numpy.memmap / mmap,
    os.sendfile in shutil) works natively, while everything that goes through Python still passes the seam.
    Behaves like the bytearray it replaces (len, slicing, slice assignment, del x[n:], extend)."""

    __slots__ = ("fd",)

    def __init__(self):
        self.fd = os.memfd_create("simfs-inode")

    def __len__(self):
        return _real["os_fstat"](self.fd).st_size

    def __bytes__(self):
        n = len(self)
        return os.pread(self.fd, n, 0) if n else b""

    def __getitem__(self, sl):
        if not isinstance(sl, slice):
            raise TypeError("FdBytes supports slices only")
        start, stop, step = sl.indices(len(self))
        if step != 1:
            return bytes(self)[sl]
        return os.pread(self.fd, max(0, stop - start), start) if stop > start else b""

    def __setitem__(self, sl, data):
        data = bytes(data)
        n = len(self)
        start, stop, step = sl.indices(n)
        if step != 1:
            raise ValueError("FdBytes: extended slices are not supported")
        if stop - start == len(data) or stop >= n:
            # in-place overwrite, or replacing the tail (possibly growing the file)
            if stop >= n and start + len(data) < n:
                _real["os_ftruncate"](self.fd, start + len(data))
            pos = 0
            while pos < len(data):
                pos += os.pwrite(self.fd, data[pos:], start + pos)
            return
        rest = os.pread(self.fd, n - stop, stop)
        _real["os_ftruncate"](self.fd, start)
        blob = data + rest
        pos = 0
        while pos < len(blob):
            pos += os.pwrite(self.fd, blob[pos:], start + pos)

    def __delitem__(self, sl):
        n = len(self)
        start, stop, step = sl.indices(n)
        if step != 1 or stop < n:
            keep = bytes(self)
            keep = keep[:start] + keep[stop:]
            _real["os_ftruncate"](self.fd, 0)
            if keep:
                os.pwrite(self.fd, keep, 0)
            return
        _real["os_ftruncate"](self.fd, start)

    def extend(self, data):
        data = bytes(data)
        if data:
            os.pwrite(self.fd, data, len(self))

    def close(self):
        if self.fd is not None:
            try:
                _real["os_close"](self.fd)
            except OSError:
                pass
            self.fd = None

    def __del__(self):           # the inode goes when its last name and its last open handle are gone
        try:
            self.close()
        except Exception:
            pass


class Node:
    __slots__ = ("kind", "data", "ino", "mtime")

    def __init__(self, kind, ino):
        self.kind = kind  # 'f' | 'd'
        self.data = FdBytes() if kind == "f" else None
        self.ino = ino
        self.mtime = 0


class SimRaw(io.RawIOBase):
    def __init__(self, fs, path, node, readable, writable, append, mode):
        super().__init__()
        self.fs = fs
        self.path = path
        self.node = node
        self._r = readable
        self._w = writable
        self._append = append
        self.fd = None
        self._pos = len(node.data) if append else 0
        self.dead = False
        self.owner = fs.session
        self.name = path
        self.mode = mode

    # the stream position; once a real descriptor has been handed out its offset is the single source of truth,
    # so that I/O done on it outside Python (ndarray.tofile) and I/O done through this object stay consistent
    @property
    def pos(self):
        if self.fd is not None:
            try:
                return _real["os_lseek"](self.fd, 0, 1)
            except OSError:
                pass
        return self._pos

    @pos.setter
    def pos(self, v):
        self._pos = v
        if self.fd is not None:
            try:
                _real["os_lseek"](self.fd, v, 0)
            except OSError:
                pass

    # capabilities -------------------------------------------------------
    def readable(self):
        return self._r

    def writable(self):
        return self._w

    def seekable(self):
        return True

    def fileno(self):
        """a real descriptor on the inode's memory file; the patched os.write / os.read / os.fsync / os.fstat route it
        back through this object (and the fault seam), C code that uses it directly reaches the same bytes"""
        if self.closed:
            raise ValueError("I/O operation on closed file")
        return self.realfd()

    def realfd(self):
        """a real descriptor with its own file offset on the inode's memory file (opened lazily); its offset is
        synchronised with this stream's position whenever it is handed out"""
        if self.fd is None:
            flags = os.O_RDWR if self._w else os.O_RDONLY
            if self._append:
                flags |= os.O_APPEND
            pos = self._pos
            if self.node.kind == "d":
                # a directory opened for fsync-ing a rename: any real directory descriptor will do
                self.fd = _real["os_open"]("/", os.O_RDONLY)
            else:
                self.fd = _real["os_open"]("/proc/self/fd/%d" % self.node.data.fd, flags)
            self.fs.fds[self.fd] = self
            self.pos = pos
        return self.fd

    def isatty(self):
        return False

    # primitives ---------------------------------------------------------
    def readinto(self, b):
        if self.closed:
            raise ValueError("I/O operation on closed file")
        if not self._r:
            raise io.UnsupportedOperation("not readable")
        n = len(b)
        if self.dead:
            return 0
        limit = self.fs._prim("read", self.path, n, handle=self)
        if limit is not None:
            n = min(n, limit)
        chunk = self.node.data[self.pos:self.pos + n]
        k = len(chunk)
        memoryview(b).cast("B")[:k] = chunk
        self.pos += k
        return k

    def write(self, b):
        if self.closed:
            raise ValueError("I/O operation on closed file")
        if not self._w:
            raise io.UnsupportedOperation("not writable")
        data = bytes(memoryview(b).cast("B"))
        if self.dead:
            return len(data)
        limit = self.fs._prim("write", self.path, len(data), handle=self, payload=data)
        if limit is not None:
            data = data[:limit]
        return self._commit(data)

    def _commit(self, data):
        """Store bytes in the inode at the current position, honouring the capacity budget."""
        if self._append:
            self.pos = len(self.node.data)
        fs = self.fs
        if fs.capacity is not None:
            grow = max(0, self.pos + len(data) - len(self.node.data))
            room = fs.capacity - fs.used()
            if grow > room:
                keep = len(data) - (grow - max(room, 0))
                if keep <= 0:
                    fs.fired["enospc_capacity"] += 1
                    fs._note_fault("enospc_capacity")
                    raise OSError(errno.ENOSPC, "No space left on device (simulated)", self.path)
                data = data[:keep]
        nd = self.node.data
        if self.pos > len(nd):
            nd.extend(b"\0" * (self.pos - len(nd)))
        nd[self.pos:self.pos + len(data)] = data
        self.pos += len(data)
        fs.tick += 1
        self.node.mtime = fs.tick
        return len(data)

    def seek(self, offset, whence=0):
        if self.closed:
            raise ValueError("I/O operation on closed file")
        if whence == 0:
            p = offset
        elif whence == 1:
            p = self.pos + offset
        elif whence == 2:
            p = len(self.node.data) + offset
        else:
            raise ValueError("bad whence")
        if p < 0:
            raise OSError(errno.EINVAL, "Invalid argument")
        self.pos = p
        return p

    def tell(self):
        if self.closed:
            raise ValueError("I/O operation on closed file")
        return self.pos

    def truncate(self, size=None):
        if self.closed:
            raise ValueError("I/O operation on closed file")
        if not self._w:
            raise io.UnsupportedOperation("not writable")
        if size is None:
            size = self.pos
        if self.dead:
            return size
        self.fs._prim("truncate", self.path, size, handle=self)
        nd = self.node.data
        if size < len(nd):
            del nd[size:]
        else:
            nd.extend(b"\0" * (size - len(nd)))
        self.fs.tick += 1
        self.node.mtime = self.fs.tick
        return size

    def close(self):
        if self.closed:
            return
        try:
            if not self.dead:
                self.fs._prim("close", self.path, None, handle=self)
        finally:
            self.fs.open_handles.discard(self)
            if self.fd is not None:
                self.fs.fds.pop(self.fd, None)
                try:
                    _real["os_close"](self.fd)
                except OSError:
                    pass
                self.fd = None
            super().close()


class _DirEntry:
    def __init__(self, fs, dirpath, name):
        self.name = name
        self.path = dirpath.rstrip("/") + "/" + name
        self._fs = fs

    def is_file(self, follow_symlinks=True):
        n = self._fs.nodes.get(self.path)
        return n is not None and n.kind == "f"

    def is_dir(self, follow_symlinks=True):
        n = self._fs.nodes.get(self.path)
        return n is not None and n.kind == "d"

    def is_symlink(self):
        return False

    def stat(self, follow_symlinks=True):
        return self._fs.stat(self.path)

    def inode(self):
        return self._fs.nodes[self.path].ino

    def __fspath__(self):
        return self.path


class _ScanIter:
    def __init__(self, entries):
        self._it = iter(entries)

    def __iter__(self):
        return self

    def __next__(self):
        return next(self._it)

    def close(self):
        pass

    def __enter__(self):
        return self

    def __exit__(self, *a):
        return False


class SimFS:
    PRIMS = ("open", "read", "write", "stat", "listdir", "close", "truncate", "remove", "rename", "mkdir")

    def __init__(self, bufsize=None):
        self.nodes = {}
        self._ino = 0
        self.tick = 0
        self.mkdir_raw(ROOT)
        self.cwd = None           # virtual working directory (only honoured while a call is active)
        self.open_handles = set()
        self.capacity = None      # total bytes budget
        self.handle_budget = None  # max simultaneously open Sim handles
        self.readonly_dirs = set()
        self.list_seed = None     # seeded permutation of listings (None = sorted)
        self.bufsize = bufsize or io.DEFAULT_BUFFER_SIZE
        self.mtime_mode = "fine"
        self.session = None
        self.active = False
        self.armed = []
        self.counters = {}
        self.io_log = []
        self.fired = _Counter()
        self.call_fired = []
        self.escaped_writes = []
        self.prims_total = 0
        self.max_open = 0
        self.foreign_touched = set()
        self.fds = {}             # real descriptor -> SimRaw

    def destroy(self):
        """end of a run: release every descriptor the simulated disk holds"""
        for h in list(self.open_handles):
            h.dead = True
            try:
                h.close()
            except Exception:
                pass
        for raw in list(self.fds.values()):
            try:
                raw.close()
            except Exception:
                pass
        for n in self.nodes.values():
            if n.kind == "f" and n.data is not None:
                n.data.close()
        self.nodes.clear()

    # ----- low-level descriptor API (os.open / os.fdopen / os.write / os.fsync ...) -----
    def os_open(self, path, flags):
        acc = flags & (os.O_RDONLY | os.O_WRONLY | os.O_RDWR)
        reading = acc in (os.O_RDONLY, os.O_RDWR)
        writing = acc in (os.O_WRONLY, os.O_RDWR)
        self._prim("open", path, None)
        if self.handle_budget is not None and len(self.open_handles) >= self.handle_budget:
            self.fired["emfile_budget"] += 1
            self._note_fault("emfile_budget")
            raise OSError(errno.EMFILE, "Too many open files (simulated)", path)
        node = self.nodes.get(path)
        parent = os.path.dirname(path)
        if node is not None and node.kind == "d":
            if writing:
                raise IsADirectoryError(errno.EISDIR, "Is a directory", path)
        if node is None:
            if not flags & os.O_CREAT:
                raise FileNotFoundError(errno.ENOENT, "No such file or directory", path)
            pn = self.nodes.get(parent)
            if pn is None or pn.kind != "d":
                raise FileNotFoundError(errno.ENOENT, "No such file or directory", path)
            if parent in self.readonly_dirs:
                self.fired["readonly_dir"] += 1
                self._note_fault("readonly_dir")
                raise PermissionError(errno.EACCES, "Permission denied (simulated)", path)
            node = self._new_node("f")
            self.nodes[path] = node
        elif flags & os.O_CREAT and flags & os.O_EXCL:
            raise FileExistsError(errno.EEXIST, "File exists", path)
        if writing and flags & os.O_TRUNC:
            del node.data[:]
        self.tick += 1
        node.mtime = self.tick
        raw = SimRaw(self, path, node, reading, writing, bool(flags & os.O_APPEND), "r+b" if (reading and writing) else ("wb" if writing else "rb"))
        self.open_handles.add(raw)
        self.max_open = max(self.max_open, len(self.open_handles))
        return raw.realfd()

    def fd_raw(self, fd):
        raw = self.fds.get(fd)
        if raw is None or raw.closed:
            raise OSError(errno.EBADF, "Bad file descriptor")
        return raw

    def fd_stream(self, fd, mode, buffering, encoding, errors, newline):
        """builtins.open(fd) / os.fdopen(fd): wrap the descriptor's raw stream (no truncation happens here)"""
        raw = self.fd_raw(fd)
        binary = "b" in mode
        if buffering == 0:
            return raw
        bs = self.bufsize if buffering in (-1, 1) else buffering
        if raw._r and raw._w:
            buf = io.BufferedRandom(raw, bs)
        elif raw._w:
            buf = io.BufferedWriter(raw, bs)
        else:
            buf = io.BufferedReader(raw, bs)
        if binary:
            return buf
        txt = io.TextIOWrapper(buf, encoding, errors, newline, buffering == 1)
        txt.mode = mode
        return txt

    # ----- raw namespace helpers (used by the harness and by foreign actors) -----
    def _new_node(self, kind):
        self._ino += 1
        return Node(kind, self._ino)

    def mkdir_raw(self, path):
        if path not in self.nodes:
            parent = os.path.dirname(path)
            if path != ROOT and parent not in self.nodes:
                self.mkdir_raw(parent)
            self.nodes[path] = self._new_node("d")

    def put(self, path, data):
        """Foreign-actor / harness write: no primitives counted, no faults."""
        self.mkdir_raw(os.path.dirname(path))
        n = self.nodes.get(path)
        if n is None or n.kind != "f":
            n = self._new_node("f")
            self.nodes[path] = n
        n.data[:] = data
        self.tick += 1
        n.mtime = self.tick

    def get(self, path):
        n = self.nodes.get(path)
        if n is None or n.kind != "f":
            return None
        return bytes(n.data)

    def delete(self, path):
        self.nodes.pop(path, None)

    def files(self):
        return {p: bytes(n.data) for p, n in self.nodes.items() if n.kind == "f"}

    def used(self):
        return sum(len(n.data) for n in self.nodes.values() if n.kind == "f")

    def digest_items(self):
        import hashlib
        out = []
        for p in sorted(self.nodes):
            n = self.nodes[p]
            if n.kind == "f":
                out.append((p, len(n.data), hashlib.sha256(bytes(n.data)).hexdigest()[:16]))
            else:
                out.append((p, -1, "dir"))
        return out

    # ----- path resolution -----
    def resolve(self, path):
        """Return the normalised SimFS path, or None when the path is not ours."""
        if isinstance(path, int):
            return None
        try:
            p = os.fspath(path)
        except TypeError:
            return None
        if isinstance(p, bytes):
            p = p.decode("utf-8", "surrogateescape")
        if not p.startswith("/"):
            if self.active and self.cwd is not None:
                p = self.cwd.rstrip("/") + "/" + p
            else:
                return None
        if not (p == ROOT or p.startswith(ROOT + "/")):
            return None
        p = os.path.normpath(p)
        if not (p == ROOT or p.startswith(ROOT + "/")):
            return None
        return p

    # ----- call bracketing, fault arming -----
    def begin_call(self, session, faults=()):
        self.session = session
        self.active = True
        self.armed = [dict(f, _fired=False) for f in faults]
        self.counters = {k: 0 for k in self.PRIMS}
        self.counters["any"] = 0
        self.io_log = []
        self.call_fired = []
        self.foreign_touched = set()

    def end_call(self):
        self.active = False
        log, fired = self.io_log, self.call_fired
        n = self.counters.get("any", 0)
        self.armed = []
        return log, fired, n

    def _note_fault(self, kind):
        self.call_fired.append(kind)
        if self.io_log:
            self.io_log[-1] = self.io_log[-1] + (kind,)

    def _prim(self, cls, path, nbytes, handle=None, payload=None):
        """Count one I/O primitive; apply an armed fault if one is addressed to it.

        Returns None, or for read/write an integer limit on the number of bytes to transfer.
        """
        if not self.active:
            return None
        idx_cls = self.counters[cls]
        idx_any = self.counters["any"]
        self.counters[cls] = idx_cls + 1
        self.counters["any"] = idx_any + 1
        self.prims_total += 1
        self.io_log.append((cls, path.replace(ROOT, "", 1), nbytes if nbytes is not None else -1))
        limit = None
        for f in self.armed:
            if f["_fired"]:
                continue
            on = f["on"]
            if on == "any":
                if idx_any != f["at"]:
                    continue
            elif on == cls:
                if idx_cls != f["at"]:
                    continue
            else:
                continue
            kind = f["kind"]
            if kind == "crash":
                f["_fired"] = True
                self.fired["crash"] += 1
                self._note_fault("crash")
                if cls == "write" and f.get("torn") and payload:
                    k = int(len(payload) * f.get("frac", 0.5))
                    if k > 0 and handle is not None:
                        try:
                            handle._commit(payload[:k])
                        except OSError:
                            pass
                        self.fired["crash_torn"] += 1
                self.kill_handles(self.session)
                raise SimCrash("simulated crash at %s#%d (%s)" % (cls, idx_cls, path))
            if kind == "enospc" and cls == "write":
                f["_fired"] = True
                self.fired["enospc"] += 1
                self._note_fault("enospc")
                k = int((nbytes or 0) * f.get("frac", 0.0))
                if k > 0 and handle is not None and payload:
                    handle._commit(payload[:k])
                raise OSError(errno.ENOSPC, "No space left on device (simulated)", path)
            if kind == "eio_write" and cls == "write":
                f["_fired"] = True
                self.fired["eio_write"] += 1
                self._note_fault("eio_write")
                raise OSError(errno.EIO, "Input/output error (simulated)", path)
            if kind == "eio_read" and cls == "read":
                f["_fired"] = True
                self.fired["eio_read"] += 1
                self._note_fault("eio_read")
                raise OSError(errno.EIO, "Input/output error (simulated)", path)
            if kind == "eintr" and cls in ("read", "write"):
                f["_fired"] = True
                self.fired["eintr"] += 1
                self._note_fault("eintr")
                # the interrupted primitive transferred nothing; CPython's buffered layer retries
                self.counters[cls] = idx_cls  # the retry is the same logical primitive
                self.counters["any"] = idx_any
                raise InterruptedError(errno.EINTR, "Interrupted system call (simulated)")
            if kind == "short_write" and cls == "write":
                if (nbytes or 0) >= 2:
                    f["_fired"] = True
                    self.fired["short_write"] += 1
                    self._note_fault("short_write")
                    limit = max(1, int(nbytes * f.get("frac", 0.5)))
                continue
            if kind == "short_read" and cls == "read":
                if (nbytes or 0) >= 2:
                    f["_fired"] = True
                    self.fired["short_read"] += 1
                    self._note_fault("short_read")
                    limit = max(1, int(nbytes * f.get("frac", 0.5)))
                continue
            if kind == "open_fail" and cls == "open":
                f["_fired"] = True
                self.fired["open_fail"] += 1
                self._note_fault("open_fail")
                code = f.get("errno", errno.EMFILE)
                raise OSError(code, os.strerror(code) + " (simulated)", path)
            if kind == "toctou" and cls == "stat":
                # the foreign actor flips the existence of the stat'ed path right after the check
                f["_fired"] = True
                f["_pending"] = path
                continue
        return limit

    def _after_stat(self, path):
        for f in self.armed:
            if f.get("_pending") == path and f["kind"] == "toctou":
                f["_pending"] = None
                n = self.nodes.get(path)
                if n is not None and n.kind == "f":
                    del self.nodes[path]
                    self.foreign_touched.add(path)
                    self.fired["toctou_removed"] += 1
                    self._note_fault("toctou_removed")
                elif n is None and os.path.dirname(path) in self.nodes:
                    self.put(path, bytes.fromhex(f.get("data_hex", "")) or b"foreign\n")
                    self.foreign_touched.add(path)
                    self.fired["toctou_created"] += 1
                    self._note_fault("toctou_created")
                else:
                    f["_fired"] = False  # a directory: nothing to flip, stay armed for the next stat
                    f["at"] = self.counters["stat"]

    def kill_handles(self, session):
        for h in list(self.open_handles):
            if session is None or h.owner == session:
                h.dead = True

    def reap_handles(self, session=None):
        """Process exit: the OS closes whatever the session left open.  Returns how many."""
        n = 0
        for h in list(self.open_handles):
            if session is None or h.owner == session:
                h.dead = True
                self.open_handles.discard(h)
                n += 1
        return n

    # ----- the file API seen by library code -----
    def open(self, path, mode="r", buffering=-1, encoding=None, errors=None, newline=None):
        modes = set(mode)
        if modes - set("axrwb+t") or len(mode) > len(modes):
            raise ValueError("invalid mode: %r" % mode)
        creating, reading, writing, appending = "x" in modes, "r" in modes, "w" in modes, "a" in modes
        updating, text, binary = "+" in modes, "t" in modes, "b" in modes
        if text and binary:
            raise ValueError("can't have text and binary mode at once")
        if creating + reading + writing + appending != 1:
            raise ValueError("must have exactly one of create/read/write/append mode")
        if binary and (encoding is not None or errors is not None or newline is not None):
            raise ValueError("binary mode doesn't take encoding/errors/newline arguments")
        self._prim("open", path, None)
        if self.handle_budget is not None and len(self.open_handles) >= self.handle_budget:
            self.fired["emfile_budget"] += 1
            self._note_fault("emfile_budget")
            raise OSError(errno.EMFILE, "Too many open files (simulated)", path)
        node = self.nodes.get(path)
        parent = os.path.dirname(path)
        wants_write = creating or writing or appending or updating
        if node is not None and node.kind == "d":
            raise IsADirectoryError(errno.EISDIR, "Is a directory", path)
        if node is None:
            if reading:
                raise FileNotFoundError(errno.ENOENT, "No such file or directory", path)
            pn = self.nodes.get(parent)
            if pn is None:
                raise FileNotFoundError(errno.ENOENT, "No such file or directory", path)
            if pn.kind != "d":
                raise NotADirectoryError(errno.ENOTDIR, "Not a directory", path)
        if wants_write and parent in self.readonly_dirs:
            self.fired["readonly_dir"] += 1
            self._note_fault("readonly_dir")
            raise PermissionError(errno.EACCES, "Permission denied (simulated)", path)
        if node is not None and creating:
            raise FileExistsError(errno.EEXIST, "File exists", path)
        if node is None:
            node = self._new_node("f")
            self.nodes[path] = node
            self.tick += 1
            node.mtime = self.tick
        elif writing:
            del node.data[:]
            self.tick += 1
            node.mtime = self.tick
        raw = SimRaw(self, path, node, reading or updating, wants_write, appending, mode)
        self.open_handles.add(raw)
        self.max_open = max(self.max_open, len(self.open_handles))
        if buffering == 0:
            if not binary:
                raw.close()
                raise ValueError("can't have unbuffered text I/O")
            return raw
        line_buffering = buffering == 1 and not binary
        bs = self.bufsize if buffering in (-1, 1) else buffering
        if updating:
            buf = io.BufferedRandom(raw, bs)
        elif wants_write:
            buf = io.BufferedWriter(raw, bs)
        else:
            buf = io.BufferedReader(raw, bs)
        if binary:
            return buf
        txt = io.TextIOWrapper(buf, encoding, errors, newline, line_buffering)
        txt.mode = mode
        return txt

    def stat(self, path):
        self._prim("stat", path, None)
        n = self.nodes.get(path)
        try:
            if n is None:
                raise FileNotFoundError(errno.ENOENT, "No such file or directory", path)
            if n.kind == "d":
                mode, size = _stat.S_IFDIR | 0o755, 4096
            else:
                mode, size = _stat.S_IFREG | 0o644, len(n.data)
            # timestamps: "fine" = every write gets its own microsecond; "coarse" = everything in this run happens
            # within one second on a file system with whole-second timestamps (legal, and common for small files),
            # so a rewrite of equal size is invisible to anything that keys on (mtime, size)
            base = 1704067200
            if self.mtime_mode == "coarse":
                sec, ns = base, base * 10**9
                tf = float(base)
            else:
                ns = base * 10**9 + int(n.mtime) * 1000
                sec, tf = ns // 10**9, ns / 1e9
            return os.stat_result((mode, n.ino, 4242, 1, 0, 0, size, sec, sec, sec, tf, tf, tf, ns, ns, ns))
        finally:
            if self.active:
                self._after_stat(path)

    def listdir(self, path):
        self._prim("listdir", path, None)
        n = self.nodes.get(path)
        if n is None:
            raise FileNotFoundError(errno.ENOENT, "No such file or directory", path)
        if n.kind != "d":
            raise NotADirectoryError(errno.ENOTDIR, "Not a directory", path)
        pre = path.rstrip("/") + "/"
        names = sorted(p[len(pre):] for p in self.nodes if p.startswith(pre) and "/" not in p[len(pre):])
        if self.list_seed is not None and len(names) > 1:
            import random
            random.Random(derive(self.list_seed, path)).shuffle(names)
            self.fired["listdir_order"] += 1
        return names

    def remove(self, path):
        self._prim("remove", path, None)
        n = self.nodes.get(path)
        if n is None:
            raise FileNotFoundError(errno.ENOENT, "No such file or directory", path)
        if n.kind == "d":
            raise IsADirectoryError(errno.EISDIR, "Is a directory", path)
        if os.path.dirname(path) in self.readonly_dirs:
            raise PermissionError(errno.EACCES, "Permission denied (simulated)", path)
        del self.nodes[path]

    def rename(self, src, dst):
        self._prim("rename", src, None)
        n = self.nodes.get(src)
        if n is None:
            raise FileNotFoundError(errno.ENOENT, "No such file or directory", src)
        if os.path.dirname(dst) not in self.nodes:
            raise FileNotFoundError(errno.ENOENT, "No such file or directory", dst)
        if n.kind == "d":
            pre = src.rstrip("/") + "/"
            for p in [p for p in self.nodes if p.startswith(pre)]:
                self.nodes[dst + "/" + p[len(pre):]] = self.nodes.pop(p)
        self.nodes[dst] = self.nodes.pop(src)

    def mkdir(self, path, exist_ok=False):
        self._prim("mkdir", path, None)
        if path in self.nodes:
            raise FileExistsError(errno.EEXIST, "File exists", path)
        if os.path.dirname(path) not in self.nodes:
            raise FileNotFoundError(errno.ENOENT, "No such file or directory", path)
        self.nodes[path] = self._new_node("d")

    def rmdir(self, path):
        n = self.nodes.get(path)
        if n is None:
            raise FileNotFoundError(errno.ENOENT, "No such file or directory", path)
        pre = path.rstrip("/") + "/"
        if any(p.startswith(pre) for p in self.nodes):
            raise OSError(errno.ENOTEMPTY, "Directory not empty", path)
        del self.nodes[path]


class _Counter(dict):
    def __missing__(self, k):
        return 0


# --------------------------------------------------------------------------- patches
def _is_write_mode(mode):
    return any(c in mode for c in "wxa+")


def _p_open(file, mode="r", buffering=-1, encoding=None, errors=None, newline=None, closefd=True, opener=None):
    fs = _FS
    if fs is not None and isinstance(file, int) and file in fs.fds:
        return fs.fd_stream(file, mode, buffering, encoding, errors, newline)
    if fs is not None:
        p = fs.resolve(file)
        if p is not None and opener is not None:
            # open(path, mode, opener=...) as tempfile does: the opener returns a descriptor (ours if it went through
            # the patched os.open), which is then wrapped like any other
            flags = os.O_RDONLY
            if "+" in mode:
                flags = os.O_RDWR
            elif any(c in mode for c in "wxa"):
                flags = os.O_WRONLY
            if "w" in mode:
                flags |= os.O_CREAT | os.O_TRUNC
            if "x" in mode:
                flags |= os.O_CREAT | os.O_EXCL
            if "a" in mode:
                flags |= os.O_CREAT | os.O_APPEND
            fd = opener(file, flags)
            if fd in fs.fds:
                stream = fs.fd_stream(fd, mode, buffering, encoding, errors, newline)
                return stream
            return _real["open"](fd, mode, buffering, encoding, errors, newline, closefd)
        if p is not None:
            return fs.open(p, mode, buffering, encoding, errors, newline)
        if fs.active and isinstance(mode, str) and _is_write_mode(mode) and not isinstance(file, int):
            # a write outside the simulated disk while library code is on the stack
            fs.escaped_writes.append(str(file))
            fs.fired["escaped_write"] += 1
    return _real["open"](file, mode, buffering, encoding, errors, newline, closefd, opener)


def _p_stat(path, *a, **kw):
    fs = _FS
    if fs is not None:
        p = fs.resolve(path)
        if p is not None:
            return fs.stat(p)
    return _real["stat"](path, *a, **kw)


def _p_lstat(path, *a, **kw):
    fs = _FS
    if fs is not None:
        p = fs.resolve(path)
        if p is not None:
            return fs.stat(p)
    return _real["lstat"](path, *a, **kw)


def _p_listdir(path="."):
    fs = _FS
    if fs is not None:
        p = fs.resolve(path)
        if p is not None:
            return fs.listdir(p)
    return _real["listdir"](path)


def _p_scandir(path="."):
    fs = _FS
    if fs is not None:
        p = fs.resolve(path)
        if p is not None:
            return _ScanIter([_DirEntry(fs, p, n) for n in fs.listdir(p)])
    return _real["scandir"](path)


def _p_remove(path, *a, **kw):
    fs = _FS
    if fs is not None:
        p = fs.resolve(path)
        if p is not None:
            return fs.remove(p)
    return _real["remove"](path, *a, **kw)


def _p_rename(src, dst, *a, **kw):
    fs = _FS
    if fs is not None:
        p, q = fs.resolve(src), fs.resolve(dst)
        if p is not None and q is not None:
            return fs.rename(p, q)
        if p is not None or q is not None:
            raise OSError(errno.EXDEV, "Invalid cross-device link (simfs <-> real)")
    return _real["rename"](src, dst, *a, **kw)


def _p_mkdir(path, mode=0o777, *a, **kw):
    fs = _FS
    if fs is not None:
        p = fs.resolve(path)
        if p is not None:
            return fs.mkdir(p)
    return _real["mkdir"](path, mode, *a, **kw)


def _p_rmdir(path, *a, **kw):
    fs = _FS
    if fs is not None:
        p = fs.resolve(path)
        if p is not None:
            return fs.rmdir(p)
    return _real["rmdir"](path, *a, **kw)


def _p_getcwd():
    fs = _FS
    if fs is not None and fs.active and fs.cwd is not None:
        return fs.cwd
    return _real["getcwd"]()


def _p_chdir(path):
    fs = _FS
    if fs is not None:
        p = fs.resolve(path)
        if p is not None:
            n = fs.nodes.get(p)
            if n is None or n.kind != "d":
                raise FileNotFoundError(errno.ENOENT, "No such file or directory", p)
            fs.cwd = p
            return None
    return _real["chdir"](path)


def _p_access(path, mode, *a, **kw):
    fs = _FS
    if fs is not None:
        p = fs.resolve(path)
        if p is not None:
            if p not in fs.nodes:
                return False
            if mode & os.W_OK and os.path.dirname(p) in fs.readonly_dirs:
                fs.fired["readonly_dir"] += 1      # the refusal reaches the caller through this answer too
                fs._note_fault("readonly_dir")
                return False
            return True
    return _real["access"](path, mode, *a, **kw)


def _p_os_open(path, flags, mode=0o777, *a, **kw):
    fs = _FS
    if fs is not None:
        p = fs.resolve(path)
        if p is not None:
            return fs.os_open(p, flags)
        if fs.active and flags & (os.O_WRONLY | os.O_RDWR | os.O_CREAT):
            fs.escaped_writes.append(str(path))
            fs.fired["escaped_write"] += 1
    return _real["os_open"](path, flags, mode, *a, **kw)


def _fd(fd):
    fs = _FS
    return fs.fds.get(fd) if fs is not None and isinstance(fd, int) else None


def _p_os_close(fd):
    raw = _fd(fd)
    if raw is not None:
        return raw.close()
    return _real["os_close"](fd)


def _p_os_write(fd, data):
    raw = _fd(fd)
    if raw is not None:
        return raw.write(data)
    return _real["os_write"](fd, data)


def _p_os_read(fd, n):
    raw = _fd(fd)
    if raw is not None:
        b = bytearray(n)
        k = raw.readinto(b)
        return bytes(b[:k])
    return _real["os_read"](fd, n)


def _p_os_fsync(fd):
    raw = _fd(fd)
    if raw is not None:
        if raw.closed:
            raise OSError(errno.EBADF, "Bad file descriptor")
        return None   # data reach the inode at write time; there is nothing further to make durable
    return _real["os_fsync"](fd)


def _p_os_ftruncate(fd, length):
    raw = _fd(fd)
    if raw is not None:
        raw.truncate(length)
        return None
    return _real["os_ftruncate"](fd, length)


def _p_os_lseek(fd, pos, how):
    raw = _fd(fd)
    if raw is not None:
        return raw.seek(pos, how)
    return _real["os_lseek"](fd, pos, how)


def _p_os_fstat(fd):
    raw = _fd(fd)
    if raw is not None:
        return raw.fs.stat(raw.path)
    return _real["os_fstat"](fd)


def _exists_or_raise(fs, p):
    if p not in fs.nodes:
        raise FileNotFoundError(errno.ENOENT, "No such file or directory", p)


def _p_os_chmod(path, mode, *a, **kw):
    fs = _FS
    if fs is not None:
        if isinstance(path, int) and _fd(path) is not None:
            return None
        p = fs.resolve(path)
        if p is not None:
            _exists_or_raise(fs, p)
            return None          # permission bits are not modelled (the simulated user may do everything)
    return _real["os_chmod"](path, mode, *a, **kw)


def _p_os_fchmod(fd, mode):
    if _fd(fd) is not None:
        return None
    return _real["os_fchmod"](fd, mode)


def _p_os_utime(path, *a, **kw):
    fs = _FS
    if fs is not None:
        p = fs.resolve(path)
        if p is not None:
            _exists_or_raise(fs, p)
            return None
    return _real["os_utime"](path, *a, **kw)


def _p_os_chown(path, *a, **kw):
    fs = _FS
    if fs is not None:
        p = fs.resolve(path)
        if p is not None:
            _exists_or_raise(fs, p)
            return None
    return _real["os_chown"](path, *a, **kw)


def _p_os_truncate(path, length):
    fs = _FS
    if fs is not None:
        if isinstance(path, int) and _fd(path) is not None:
            return _p_os_ftruncate(path, length)
        p = fs.resolve(path)
        if p is not None:
            _exists_or_raise(fs, p)
            nd = fs.nodes[p].data
            if length < len(nd):
                del nd[length:]
            else:
                nd.extend(b"\0" * (length - len(nd)))
            fs.tick += 1
            fs.nodes[p].mtime = fs.tick
            return None
    return _real["os_truncate"](path, length)


def _p_os_link(src, dst, *a, **kw):
    fs = _FS
    if fs is not None:
        p, q = fs.resolve(src), fs.resolve(dst)
        if p is not None and q is not None:
            _exists_or_raise(fs, p)
            if q in fs.nodes:
                raise FileExistsError(errno.EEXIST, "File exists", q)
            fs.nodes[q] = fs.nodes[p]     # a hard link: two names, one inode
            return None
    return _real["os_link"](src, dst, *a, **kw)


def _p_os_listxattr(path=None, *a, **kw):
    fs = _FS
    if fs is not None and path is not None:
        if isinstance(path, int) and _fd(path) is not None:
            return []
        p = fs.resolve(path) if not isinstance(path, int) else None
        if p is not None:
            _exists_or_raise(fs, p)
            return []
    return _real["os_listxattr"](path, *a, **kw)


def is_sim_stream(f):
    return isinstance(f, SimRaw) or isinstance(getattr(f, "raw", None), SimRaw)


def _p_fromfile(file, dtype=float, count=-1, sep="", offset=0, **kw):
    fs = _FS
    if fs is not None:
        stream = None
        if is_sim_stream(file):
            stream = file
            own = False
        elif not hasattr(file, "read"):
            p = fs.resolve(file)
            if p is not None:
                stream = fs.open(p, "rb")
                own = True
        if stream is not None:
            if sep != "":
                raise NotImplementedError("text-mode numpy.fromfile on SimFS")
            try:
                if offset:
                    stream.seek(offset, 1)
                dt = _np.dtype(dtype)
                if count is not None and count >= 0:
                    raw = stream.read(count * dt.itemsize)
                else:
                    raw = stream.read()
            finally:
                if own:
                    stream.close()
            whole = (len(raw) // dt.itemsize) * dt.itemsize  # numpy.fromfile drops a trailing partial item
            return _np.frombuffer(raw[:whole], dtype=dt).copy()
    return _real["fromfile"](file, dtype=dtype, count=count, sep=sep, offset=offset, **kw)


_installed = False


def install_patches():
    global _installed
    if _installed:
        return
    _installed = True
    builtins.open = _p_open
    io.open = _p_open
    os.stat = _p_stat
    os.lstat = _p_lstat
    os.listdir = _p_listdir
    os.scandir = _p_scandir
    os.remove = _p_remove
    os.unlink = _p_remove
    os.rename = _p_rename
    os.replace = _p_rename
    os.mkdir = _p_mkdir
    os.rmdir = _p_rmdir
    os.getcwd = _p_getcwd
    os.chdir = _p_chdir
    os.access = _p_access
    os.open = _p_os_open
    os.close = _p_os_close
    os.write = _p_os_write
    os.read = _p_os_read
    os.fsync = _p_os_fsync
    if hasattr(os, "fdatasync"):
        os.fdatasync = _p_os_fsync
    os.ftruncate = _p_os_ftruncate
    os.lseek = _p_os_lseek
    os.fstat = _p_os_fstat
    os.chmod = _p_os_chmod
    os.utime = _p_os_utime
    os.truncate = _p_os_truncate
    os.link = _p_os_link
    if _real["os_chown"] is not None:
        os.chown = _p_os_chown
    if _real["os_fchmod"] is not None:
        os.fchmod = _p_os_fchmod
    if _real["os_listxattr"] is not None:
        os.listxattr = _p_os_listxattr
    _np.fromfile = _p_fromfile
    try:  # numpy caches io.open for np.loadtxt / np.savetxt
        import numpy.lib._datasource as ds
        ds._file_openers._file_openers[None] = _p_open
    except Exception:  # pragma: no cover
        pass


def mount(fs):
    """Make ``fs`` the simulated disk of this process (None unmounts)."""
    global _FS
    install_patches()
    _FS = fs
    return fs


def current():
    return _FS

"""cryosim - single-process workstation simulator for cryoCAT (see /verif/DESIGN.md)."""

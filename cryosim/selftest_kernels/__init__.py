"""Tiny prange-shaped kernels (plain Python; `prange` is only a marker here) for the stepper's self-test."""
import numpy as np


def prange(*a):
    return range(*a)


def k_private(a, out):
    n = len(a)
    t = -1.0                       # bound before the loop and plainly assigned in the body: private (first-private)
    for i in prange(n):
        if a[i] < 0:
            continue               # ends the iteration
        t = a[i] * 2.0
        t = t + 1.0
        out[i] = t
    return t                       # unchanged by the loop: the body's t was private


def k_reduction(a):
    total = 0.0
    for i in prange(len(a)):
        total += a[i]
    return total


def k_shared_scratch(a, out):
    scratch = np.zeros(1)          # one object, shared by all workers: a race
    for i in prange(len(a)):
        scratch[0] = a[i]
        x = scratch[0] * 1.0
        x = x + 0.0
        out[i] = scratch[0]


def k_two_regions(a, out):
    tmp = np.zeros(len(a))
    for i in prange(len(a)):
        tmp[i] = a[i] + 1.0
    for j in prange(len(a)):
        out[j] = tmp[len(a) - 1 - j]

"""Independent EM-format reader/writer written from the format description (tom_emread.m):

  byte 0 machine code (6 = PC little endian), 1 version/unused, 2 unused, 3 data-type code
  (1 int8, 2 int16, 4 int32, 5 float32, 9 float64), int32 xdim, ydim, zdim at bytes 4..16,
  80 bytes comment, 40 int32 parameters, 256 bytes user data -> 512-byte header; data follow
  with x varying fastest, then y, then z.

Returned arrays are indexed [x, y, z].  Nothing here imports emfile.
"""
import struct

import numpy as np

TYPES = {1: ("<i1", 1), 2: ("<i2", 2), 4: ("<i4", 4), 5: ("<f4", 4), 9: ("<f8", 8)}
CODES = {"int8": 1, "int16": 2, "int32": 4, "float32": 5, "float64": 9}


class EmFormatError(Exception):
    pass


def parse(data):
    """bytes -> dict(code, dims=(x,y,z), array[x,y,z], nbytes). Raises EmFormatError on a malformed file."""
    if len(data) < 512:
        raise EmFormatError("file shorter than the 512-byte EM header (%d bytes)" % len(data))
    code = data[3]
    x, y, z = struct.unpack_from("<3i", data, 4)
    if code not in TYPES:
        raise EmFormatError("unknown EM data-type code %d" % code)
    if min(x, y, z) < 0:
        raise EmFormatError("negative dimension in EM header: %r" % ((x, y, z),))
    dt, size = TYPES[code]
    need = 512 + x * y * z * size
    if len(data) != need:
        raise EmFormatError("EM file length %d does not match header dims %r x %d bytes (+512 = %d)" % (
            len(data), (x, y, z), size, need))
    flat = np.frombuffer(data, dtype=dt, offset=512, count=x * y * z)
    arr = flat.reshape((z, y, x)).transpose(2, 1, 0)  # x fastest on disk
    return {"machine": data[0], "code": code, "dims": (x, y, z), "array": arr, "nbytes": len(data)}


def build(arr_xyz, code=None):
    """array indexed [x,y,z] -> EM file bytes, as another package (TOM/novaSTA/STOPGAP) would write it."""
    arr = np.asarray(arr_xyz)
    if arr.ndim != 3:
        raise ValueError("EM volumes are 3-D")
    if code is None:
        code = CODES[str(arr.dtype)]
    dt, _ = TYPES[code]
    x, y, z = arr.shape
    hdr = bytearray(512)
    hdr[0] = 6
    hdr[3] = code
    struct.pack_into("<3i", hdr, 4, x, y, z)
    body = np.ascontiguousarray(arr.transpose(2, 1, 0).astype(dt)).tobytes()
    return bytes(hdr) + body

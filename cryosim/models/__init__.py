"""Reference models and independent format parsers (share no code with cryoCAT or its I/O libraries)."""

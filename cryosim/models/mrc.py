"""Independent MRC2014 reader/writer written from the format specification (Cheng et al. 2015):

  1024-byte header of 4-byte words; word 1-3 nx,ny,nz (columns, rows, sections; column index varies
  fastest), word 4 mode (0 int8, 1 int16, 2 float32, 6 uint16, 12 float16), words 8-10 mx,my,mz,
  words 11-13 cell a,b,c, words 17-19 mapc,mapr,maps, word 24 nsymbt (extended header bytes),
  bytes 208-211 'MAP ', bytes 212-215 machine stamp (0x44 0x44 = little endian); data start at
  1024 + nsymbt.

Returned arrays are indexed [x, y, z].  Nothing here imports mrcfile.
"""
import struct

import numpy as np

MODES = {0: "i1", 1: "i2", 2: "f4", 6: "u2", 12: "f2"}
MODE_OF = {"int8": 0, "int16": 1, "float32": 2, "uint16": 6, "float16": 12}


class MrcFormatError(Exception):
    pass


def parse(data):
    if len(data) < 1024:
        raise MrcFormatError("file shorter than the 1024-byte MRC header (%d bytes)" % len(data))
    if data[208:212] != b"MAP ":
        raise MrcFormatError("no 'MAP ' identifier at byte 208: %r" % data[208:212])
    stamp = data[212]
    if stamp == 0x44:
        end = "<"
    elif stamp == 0x11:
        end = ">"
    else:
        raise MrcFormatError("unknown machine stamp 0x%02x" % stamp)
    nx, ny, nz, mode = struct.unpack_from(end + "4i", data, 0)
    mx, my, mz = struct.unpack_from(end + "3i", data, 28)
    cella = struct.unpack_from(end + "3f", data, 40)
    mapcrs = struct.unpack_from(end + "3i", data, 64)
    nsymbt = struct.unpack_from(end + "i", data, 92)[0]
    if mode not in MODES:
        raise MrcFormatError("unsupported MRC mode %d" % mode)
    if min(nx, ny, nz) < 0 or nsymbt < 0:
        raise MrcFormatError("negative size in MRC header")
    dt = np.dtype(end + MODES[mode])
    need = 1024 + nsymbt + nx * ny * nz * dt.itemsize
    if len(data) != need:
        raise MrcFormatError("MRC file length %d does not match header (%d,%d,%d) mode %d nsymbt %d -> %d" % (
            len(data), nx, ny, nz, mode, nsymbt, need))
    flat = np.frombuffer(data, dtype=dt, offset=1024 + nsymbt, count=nx * ny * nz)
    arr = flat.reshape((nz, ny, nx)).transpose(2, 1, 0)
    return {"dims": (nx, ny, nz), "mode": mode, "mxyz": (mx, my, mz), "cella": cella, "mapcrs": mapcrs,
            "nsymbt": nsymbt, "array": arr, "nbytes": len(data), "endian": end}


def build(arr_xyz, mode=None, nsymbt=0, voxel=1.0, big_endian=False):
    """array indexed [x,y,z] -> MRC bytes as IMOD/RELION/other software would write them."""
    arr = np.asarray(arr_xyz)
    if mode is None:
        mode = MODE_OF[str(arr.dtype)]
    end = ">" if big_endian else "<"
    dt = np.dtype(end + MODES[mode])
    nx, ny, nz = arr.shape
    hdr = bytearray(1024)
    struct.pack_into(end + "4i", hdr, 0, nx, ny, nz, mode)
    struct.pack_into(end + "3i", hdr, 28, nx, ny, nz)
    struct.pack_into(end + "3f", hdr, 40, nx * voxel, ny * voxel, nz * voxel)
    struct.pack_into(end + "3f", hdr, 52, 90.0, 90.0, 90.0)
    struct.pack_into(end + "3i", hdr, 64, 1, 2, 3)
    a = arr.astype(np.float64)
    struct.pack_into(end + "3f", hdr, 76, float(a.min()) if a.size else 0.0, float(a.max()) if a.size else 0.0,
                     float(a.mean()) if a.size else 0.0)
    struct.pack_into(end + "i", hdr, 88, 1)  # ispg
    struct.pack_into(end + "i", hdr, 92, nsymbt)
    hdr[104:108] = b"\0\0\0\0"
    struct.pack_into(end + "i", hdr, 108, 20140)
    hdr[208:212] = b"MAP "
    hdr[212:216] = bytes([0x11, 0x11, 0, 0]) if big_endian else bytes([0x44, 0x44, 0, 0])
    struct.pack_into(end + "f", hdr, 216, float(a.std()) if a.size else 0.0)
    body = np.ascontiguousarray(arr.transpose(2, 1, 0).astype(dt)).tobytes()
    return bytes(hdr) + (b"\0" * nsymbt) + body

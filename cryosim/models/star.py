"""Independent STAR tokenizer and writer for the subset C02 states: data blocks with one loop each.

Grammar (from the property statement, nothing taken from cryocat.starfileio):
  file   := (blank | comment)* block*
  block  := specifier-line (blank|comment)* 'loop_' label-line+ (blank|comment)* row-line* (blank|comment)*
  label-line := '_' NAME [ws '#' anything]
  row-line   := token (ws token)*      -- tokens contain no whitespace and no '#'
Lines end in LF or CRLF; the final newline is optional; '#' starts a comment.
"""


class StarFormatError(Exception):
    pass


def parse(text):
    """-> list of dict(spec, labels, numbers, rows) ; rows are lists of string tokens."""
    blocks = []
    cur = None
    state = "top"
    for ln, raw in enumerate(text.replace("\r\n", "\n").split("\n"), 1):
        body = raw.split("#", 1)[0]
        toks = body.split()
        comment = raw.split("#", 1)[1].strip() if "#" in raw else None
        if not toks:
            if state == "labels" and cur["labels"]:
                state = "rows"
            continue
        t0 = toks[0]
        if t0.startswith("data_") and len(toks) == 1:
            cur = {"spec": t0, "labels": [], "numbers": [], "rows": []}
            blocks.append(cur)
            state = "spec"
            continue
        if cur is None:
            raise StarFormatError("line %d: content before the first data block: %r" % (ln, raw))
        if t0 == "loop_" and len(toks) == 1:
            if state != "spec":
                raise StarFormatError("line %d: unexpected loop_" % ln)
            state = "labels"
            continue
        if t0.startswith("_"):
            if state != "labels" or len(toks) != 1:
                raise StarFormatError("line %d: unexpected label line %r" % (ln, raw))
            cur["labels"].append(t0[1:])
            num = None
            if comment is not None:
                try:
                    num = int(comment)
                except ValueError:
                    num = comment
            cur["numbers"].append(num)
            continue
        if state not in ("labels", "rows") or not cur["labels"]:
            raise StarFormatError("line %d: data row outside a loop: %r" % (ln, raw))
        state = "rows"
        if len(toks) != len(cur["labels"]):
            raise StarFormatError("line %d: %d tokens for %d columns" % (ln, len(toks), len(cur["labels"])))
        cur["rows"].append(toks)
    for b in blocks:
        if not b["labels"]:
            raise StarFormatError("block %s has no loop/labels" % b["spec"])
    return blocks


def is_number(tok):
    try:
        float(tok)
        return True
    except ValueError:
        return False


def render(blocks, lay):
    """blocks: list of dict(spec, labels, rows[token lists]); lay: dict of layout choices
    (all concrete, drawn by the caller): eol, final_newline, sep, lead, trail, numbered, comments,
    blank_after_labels, blank_between, header_comment."""
    eol = lay.get("eol", "\n")
    out = []
    for c in lay.get("header_comment", []):
        out.append("# " + c)
    for bi, b in enumerate(blocks):
        for _ in range(lay.get("blank_before", 1)):
            out.append("")
        for c in lay.get("block_comments", []):
            out.append("# " + c)
        out.append(b["spec"] + lay.get("trail", ""))
        for _ in range(lay.get("blank_after_spec", 1)):
            out.append("")
        out.append("loop_" + lay.get("trail", ""))
        for i, lab in enumerate(b["labels"], 1):
            line = "_" + lab
            if lay.get("numbered", True) and "stopgap" not in b["spec"]:
                line += lay.get("numsep", " ") + "#%d" % i
            out.append(line + lay.get("trail", ""))
        for _ in range(lay.get("blank_after_labels", 0)):
            out.append("")
        if lay.get("comment_after_labels"):
            out.append("# " + lay["comment_after_labels"])
        seps = lay.get("seps", ["\t"])
        for ri, row in enumerate(b["rows"]):
            sep = seps[ri % len(seps)]
            out.append(lay.get("lead", "") + sep.join(row) + lay.get("trail", ""))
        for _ in range(lay.get("blank_between", 1)):
            out.append("")
    text = eol.join(out)
    if lay.get("final_newline", True):
        if not text.endswith(eol):
            text += eol
    else:
        text = text.rstrip("\r\n")
    return text

"""Foreign "microscope / processing" actor for tilt-series metadata: writes SerialEM-style mdoc,
IMOD .tlt, dose text, Gctf STAR and CTFFIND4 text files from a grammar and keeps every number it
wrote as ground truth.  Also an independent mdoc text parser.  Nothing here imports cryocat.
"""
from . import star as starmodel

MONTHS = ["Jan", "Feb", "Mar", "Apr", "May", "Jun", "Jul", "Aug", "Sep", "Oct", "Nov", "Dec"]


def gen_tilt_series(rng, nimg):
    """ascending, tie-free tilt angles (degrees) and an acquisition order (dose-symmetric-like)"""
    step = rng.pick([1.0, 2.0, 3.0, 5.0])
    start = -step * (nimg // 2) + rng.pick([0.0, 0.01, -0.02, 0.5])
    tilts = [round(start + i * step + rng.uniform(-0.04, 0.04), rng.pick([2, 3, 4])) for i in range(nimg)]
    tilts = sorted(set(tilts))
    while len(tilts) < nimg:
        tilts.append(round(tilts[-1] + step, 2))
    order = sorted(range(nimg), key=lambda i: (abs(i - nimg // 2), i))  # acquisition order: centre outwards
    if rng.chance(0.3):
        order = list(range(nimg))
    return tilts, order


def gen_tomo(rng, tid, nimg):
    tilts, order = gen_tilt_series(rng, nimg)
    dose_per = round(rng.uniform(1.0, 4.0), rng.pick([1, 2, 3]))
    # acquisition rank of each (sorted) image
    rank = {img: r for r, img in enumerate(order)}
    exposure = [dose_per for _ in range(nimg)]
    prior = [round(rank[i] * dose_per, 6) for i in range(nimg)]
    du = [round(rng.uniform(15000, 60000), 2) for _ in range(nimg)]
    dv = [round(u - rng.uniform(0, 800), 2) for u in du]
    ang = [round(rng.uniform(-90, 90), 2) for _ in range(nimg)]
    ps = [round(rng.uniform(0, 120), 2) for _ in range(nimg)] if rng.chance(0.4) else None
    dims = [float(rng.pick([464, 928, 1024, 4096])), float(rng.pick([480, 960, 1024, 4096])), float(rng.pick([200, 250, 500, 1800]))]
    zshift = rng.pick([0.0, round(rng.uniform(-60, 60), 1), float(rng.randrange(-40, 40))])
    return {"id": tid, "tilts": tilts, "order": order, "exposure": exposure, "prior": prior, "du": du, "dv": dv,
            "ang": ang, "phase": ps, "dims": dims, "zshift": zshift, "px": round(rng.uniform(0.8, 14.0), 3),
            "extras": gen_extras(rng, nimg), "header_style": rng.randrange(3), "crlf": rng.chance(0.2)}


def gen_extras(rng, nimg):
    """per-image extra keys: ints, floats, negative numbers, multi-value and text entries"""
    keys = []
    if rng.chance(0.8):
        keys.append(("Magnification", [str(rng.pick([33000, 42000, 64000]))] * nimg))
    if rng.chance(0.8):
        keys.append(("StagePosition", ["%.3f %.3f" % (rng.uniform(-500, 500), rng.uniform(-500, 500)) for _ in range(nimg)]))
    if rng.chance(0.7):
        keys.append(("Defocus", ["%.4f" % rng.uniform(-6, -1) for _ in range(nimg)]))
    if rng.chance(0.7):
        keys.append(("Intensity", ["%.5f" % rng.uniform(0.05, 0.9) for _ in range(nimg)]))
    if rng.chance(0.7):
        keys.append(("SubFramePath", ["D:\\\\data\\\\frames\\\\TS_%02d_%03d_%.1f.tif" % (rng.randrange(99), i, rng.uniform(-60, 60)) for i in range(nimg)]))
    if rng.chance(0.7):
        keys.append(("DateTime", ["%02d-%s-%02d  %02d:%02d:%02d" % (rng.randrange(1, 28), rng.pick(MONTHS), 24, rng.randrange(24), rng.randrange(60), rng.randrange(60)) for _ in range(nimg)]))
    if rng.chance(0.5):
        keys.append(("NumSubFrames", [str(rng.randrange(4, 12))] * nimg))
    if rng.chance(0.4):
        keys.append(("RotationAngle", ["%.2f" % rng.uniform(-180, 180)] * nimg))
    if rng.chance(0.3):
        keys.append(("ExposureTime", ["%.7f" % rng.uniform(0.00001, 0.00009) for _ in range(nimg)]))
    return keys


def mdoc_text(t):
    """SerialEM-style mdoc: sections in acquisition order, ZValue = acquisition index"""
    n = len(t["tilts"])
    eol = "\r\n" if t["crlf"] else "\n"
    lines = []
    lines.append("PixelSpacing = %s" % t["px"])
    lines.append("Voltage = 300")
    if t["header_style"] >= 1:
        lines.append("ImageFile = TS_%03d.mrc" % t["id"])
        lines.append("ImageSize = 4096 4096")
        lines.append("DataMode = 1")
    lines.append("")
    lines.append("[T = SerialEM: Digitized on Krios  12-Jan-24  10:11:12]")
    lines.append("")
    if t["header_style"] == 2:
        lines.append("[T =     Tilt axis angle = 84.7, binning = 1  spot = 8  camera = 0]")
        lines.append("")
    for z, img in enumerate(t["order"]):
        lines.append("[ZValue = %d]" % z)
        lines.append("TiltAngle = %s" % fmt_num(t["tilts"][img]))
        lines.append("ExposureDose = %s" % fmt_num(t["exposure"][img]))
        lines.append("PriorRecordDose = %s" % fmt_num(t["prior"][img]))
        for key, vals in t["extras"]:
            lines.append("%s = %s" % (key, vals[img]))
        lines.append("")
    return eol.join(lines) + eol


def fmt_num(v):
    s = repr(float(v))
    return s


def tlt_text(t, fmt="%.2f"):
    return "".join((fmt % a) + "\n" for a in t["tilts"])


def dose_text(t):
    """corrected (accumulated) dose per image, in the order of the sorted stack"""
    return "".join("%.4f\n" % (p + e) for p, e in zip(t["prior"], t["exposure"]))


def gctf_text(t, layout):
    labels = ["rlnMicrographName", "rlnDefocusU", "rlnDefocusV", "rlnDefocusAngle"]
    if t["phase"] is not None:
        labels.append("rlnPhaseShift")
    labels += ["rlnCtfFigureOfMerit"]
    rows = []
    for i in range(len(t["tilts"])):
        row = ["TS_%03d_%03d.mrc" % (t["id"], i), "%.6f" % t["du"][i], "%.6f" % t["dv"][i], "%.6f" % t["ang"][i]]
        if t["phase"] is not None:
            row.append("%.6f" % t["phase"][i])
        row.append("0.1234")
        rows.append(row)
    return starmodel.render([{"spec": "data_", "labels": labels, "rows": rows}], layout)


def ctffind4_text(t):
    out = ["# Output from CTFFind version 4.1.14, run on 2024-01-12 10:11:12",
           "# Input file: TS_%03d.st ; Number of micrographs: %d" % (t["id"], len(t["tilts"])),
           "# Pixel size: %.3f Angstroms ; acceleration voltage: 300.0 keV ; spherical aberration: 2.70 mm ; amplitude contrast: 0.07" % t["px"],
           "# Box size: 512 pixels ; min. res.: 30.0 Angstroms ; max. res.: 5.0 Angstroms ; min. def.: 5000.0 um; max. def. 50000.0 um",
           "# Columns: #1 - micrograph number; #2 - defocus 1 [Angstroms]; #3 - defocus 2; #4 - azimuth of astigmatism; #5 - additional phase shift [radians]; #6 - cross correlation; #7 - spacing (in Angstroms) up to which CTF rings were fit successfully"]
    for i in range(len(t["tilts"])):
        ph = t["phase"][i] if t["phase"] is not None else 0.0
        out.append("%.6f %.6f %.6f %.6f %.6f %.6f %.6f" % (i + 1, t["du"][i], t["dv"][i], t["ang"][i], ph, 0.1, 8.5))
    return "\n".join(out) + "\n"


# ---------------------------------------------------------------- independent mdoc text parser
def parse_mdoc(text):
    """-> dict(header=[(key, value)], titles=[...], sections=[(zvalue_text, [(key, value)])])"""
    header, titles, sections = [], [], []
    cur = None
    for raw in text.replace("\r\n", "\n").split("\n"):
        line = raw.strip()
        if not line:
            continue
        if line.startswith("[") and line.endswith("]"):
            inner = line[1:-1].strip()
            if inner.startswith("ZValue") or inner.startswith("FrameSet"):
                cur = (inner.split("=", 1)[1].strip(), [])
                sections.append(cur)
            else:
                titles.append(inner)
            continue
        if "=" not in line:
            raise ValueError("mdoc line without '=': %r" % raw)
        k, v = line.split("=", 1)
        (header if cur is None else cur[1]).append((k.strip(), v.strip()))
    return {"header": header, "titles": titles, "sections": sections}


def same_value(a, b):
    """two mdoc values denote the same thing: numerically equal when both are numbers, else same text"""
    sa, sb = str(a).strip(), str(b).strip()
    if sa == sb:
        return True
    try:
        return float(sa) == float(sb)
    except ValueError:
        return False

"""Pose model: explicit elementary rotation matrices, no scipy.

cryoCAT documents a particle's orientation as the zxz Euler triple (phi, theta, psi) in degrees:
first a rotation by phi about z, then by theta about x, then by psi about z, all about the fixed
axes - i.e. the active matrix  R_particle = Rz(psi) . Rx(theta) . Rz(phi).
RELION's (rot, tilt, psi) are intrinsic ZYZ angles:  R_relion = Rz(rot) . Ry(tilt) . Rz(psi).
"""
import math

import numpy as np


def Rz(deg):
    a = math.radians(deg)
    c, s = math.cos(a), math.sin(a)
    return np.array([[c, -s, 0.0], [s, c, 0.0], [0.0, 0.0, 1.0]])


def Rx(deg):
    a = math.radians(deg)
    c, s = math.cos(a), math.sin(a)
    return np.array([[1.0, 0.0, 0.0], [0.0, c, -s], [0.0, s, c]])


def Ry(deg):
    a = math.radians(deg)
    c, s = math.cos(a), math.sin(a)
    return np.array([[c, 0.0, s], [0.0, 1.0, 0.0], [-s, 0.0, c]])


def R_particle(phi, theta, psi):
    return Rz(psi) @ Rx(theta) @ Rz(phi)


def R_relion(rot, tilt, psi):
    return Rz(rot) @ Ry(tilt) @ Rz(psi)


def rot_err(A, B):
    """max abs element difference between two rotation matrices"""
    return float(np.max(np.abs(np.asarray(A) - np.asarray(B))))


def is_rotation(M, tol=1e-6):
    M = np.asarray(M)
    return rot_err(M @ M.T, np.eye(3)) < tol and abs(np.linalg.det(M) - 1.0) < tol


def random_rotation_angles(rng):
    """(phi, theta, psi) in degrees, including gimbal lock and out-of-range angles"""
    style = rng.pick(["uniform", "uniform", "gimbal0", "gimbal180", "axis", "wide", "tiny"])
    if style == "uniform":
        return [rng.uniform(-180, 180), math.degrees(math.acos(rng.uniform(-1, 1))), rng.uniform(-180, 180)]
    if style == "gimbal0":
        return [rng.uniform(-180, 180), 0.0, rng.uniform(-180, 180)]
    if style == "gimbal180":
        return [rng.uniform(-180, 180), 180.0, rng.uniform(-180, 180)]
    if style == "axis":
        return [float(rng.pick([0, 90, 180, 270, -90])), float(rng.pick([0, 90, 180])), float(rng.pick([0, 90, 180, -90]))]
    if style == "wide":
        return [rng.uniform(-720, 720), rng.uniform(-360, 360), rng.uniform(-720, 720)]
    return [rng.uniform(-1e-3, 1e-3), rng.uniform(-1e-3, 1e-3), rng.uniform(-1e-3, 1e-3)]

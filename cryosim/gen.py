"""Shared workload generators (tables, arrays).  Everything is drawn from the Rng passed in and is
returned in a JSON-serialisable, *concrete* form so that a trace replays without a PRNG."""
import math

import numpy as np

MOTL_COLS = ["score", "geom1", "geom2", "subtomo_id", "tomo_id", "object_id", "subtomo_mean", "x", "y", "z",
             "shift_x", "shift_y", "shift_z", "geom3", "geom4", "geom5", "phi", "psi", "theta", "class"]
# (the canonical field order is part of C01's statement: "score, geom1, ..., class")


def f32_safe(v):
    """finite, inside float32 normal range (or exactly 0)"""
    a = abs(v)
    return v == 0 or (1.2e-38 < a < 3.0e38)


def gen_value(rng, style):
    if style == "int":
        return float(rng.randrange(-3, 2000))
    if style == "smallint":
        return float(rng.randrange(0, 6))
    if style == "angle":
        return round(rng.uniform(-360.0, 360.0), rng.pick([0, 2, 6, 12]))
    if style == "unit":
        return rng.random()
    if style == "coord":
        return rng.pick([float(rng.randrange(-50, 4000)), round(rng.uniform(-100, 4000), 3), rng.uniform(-1, 1)])
    if style == "wild":
        e = rng.uniform(-30, 30)
        return rng.pick([-1.0, 1.0]) * (10.0 ** e) * rng.uniform(1, 9.999)
    if style == "half":
        return rng.randrange(-20, 20) + 0.5
    raise ValueError(style)


COL_STYLE = {
    "score": ["unit", "wild", "angle"], "geom1": ["int", "wild"], "geom2": ["int", "wild"],
    "subtomo_id": ["int"], "tomo_id": ["smallint", "int"], "object_id": ["smallint", "int"],
    "subtomo_mean": ["unit", "wild"], "x": ["coord", "int"], "y": ["coord", "int"], "z": ["coord", "int"],
    "shift_x": ["unit", "half", "coord"], "shift_y": ["unit", "half"], "shift_z": ["unit", "half", "wild"],
    "geom3": ["int", "wild"], "geom4": ["int", "angle"], "geom5": ["int", "wild"],
    "phi": ["angle"], "psi": ["angle"], "theta": ["angle"], "class": ["smallint", "int"],
}


def gen_motl_rows(rng, n, nan_rate=0.0, wild=True, blanks=False):
    """n rows x 20 values in canonical field order; None marks a missing value (NaN hole).  With `blanks` the holes
    may also swallow a whole particle (all 20 fields missing) or a whole field (missing for every particle)."""
    styles = []
    for c in MOTL_COLS:
        opts = COL_STYLE[c] if wild else [s for s in COL_STYLE[c] if s != "wild"]
        styles.append(rng.pick(opts))
    rows = []
    for _ in range(n):
        row = []
        for st in styles:
            v = gen_value(rng, st)
            if not f32_safe(v):
                v = 1.0
            if nan_rate and rng.random() < nan_rate:
                v = None
            row.append(v)
        rows.append(row)
    if blanks and nan_rate and rows:
        if rng.chance(0.5):
            rows[rng.randrange(len(rows))] = [None] * len(styles)
        if rng.chance(0.3):
            c = rng.randrange(len(styles))
            for r in rows:
                r[c] = None
    return rows


def rows_to_matrix(rows):
    """list-of-lists with None -> float64 matrix with NaN"""
    return np.array([[np.nan if v is None else v for v in r] for r in rows], dtype=np.float64).reshape(len(rows), 20)


def matrix_to_rows(m):
    return [[None if (isinstance(v, float) and math.isnan(v)) else float(v) for v in r] for r in np.asarray(m).tolist()]


def gen_array_recipe(rng, shape, dtype, kind=None):
    """A concrete, replayable recipe for an n-d array (values are a pure function of the recipe)."""
    return {"shape": [int(s) for s in shape], "dtype": dtype, "seed": rng.randrange(1 << 31),
            "kind": kind or rng.pick(["randn", "ramp", "ints", "sparse"])}


def array_from_recipe(r):
    shape = tuple(r["shape"])
    n = int(np.prod(shape)) if shape else 1
    g = np.random.Generator(np.random.PCG64(r["seed"]))
    kind = r["kind"]
    if kind == "randn":
        a = g.standard_normal(n) * 10.0
    elif kind == "ramp":
        a = np.arange(n, dtype=np.float64) + (r["seed"] % 7)
    elif kind == "ints":
        a = g.integers(-100, 100, size=n).astype(np.float64)
    elif kind == "sparse":
        a = np.zeros(n)
        k = max(1, n // 9)
        a[g.choice(n, size=k, replace=False)] = g.standard_normal(k) * 50
    elif kind == "const":
        a = np.full(n, float(r["seed"] % 5))
    else:
        raise ValueError(kind)
    dt = np.dtype(r["dtype"])
    if dt.kind in "iu":
        info = np.iinfo(dt)
        a = np.clip(np.rint(a), info.min, info.max)
    # C-order fill of the [x,y,z]-indexed array
    return a.reshape(shape).astype(dt)

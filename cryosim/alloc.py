"""Allocator seam: what ``numpy.empty`` hands back is, legally, anything.

``AllocProxy(numpy)`` stands in for the ``np`` global of a cryoCAT module; ``empty`` / ``empty_like``
return buffers pre-filled by the simulator (0, NaN, +1e30, -7, or the *current content of the buffer
it handed out last time for the same shape*, i.e. a stale previous result); everything else is
delegated to numpy untouched.  Nothing inside numpy or scipy is patched.
"""
import numpy as _np

FILLS = ["zero", "nan", "huge", "neg7", "stale"]


class AllocProxy:
    def __init__(self, real=_np):
        object.__setattr__(self, "_real", real)
        object.__setattr__(self, "fill", "zero")
        object.__setattr__(self, "calls", {})
        object.__setattr__(self, "_last", {})

    def __getattr__(self, name):
        return getattr(self._real, name)

    def __setattr__(self, name, value):
        if name in ("fill",):
            object.__setattr__(self, name, value)
        else:
            setattr(self._real, name, value)

    def _poison(self, arr):
        fill = self.fill
        self.calls[fill] = self.calls.get(fill, 0) + 1
        key = (arr.shape, arr.dtype.str)
        if fill == "zero":
            arr[...] = 0
        elif fill == "nan":
            arr[...] = _np.nan if arr.dtype.kind in "fc" else -1
        elif fill == "huge":
            arr[...] = 1e30 if arr.dtype.kind in "fc" else 12345
        elif fill == "neg7":
            arr[...] = -7
        elif fill == "stale":
            prev = self._last.get(key)
            arr[...] = prev if prev is not None else 3.25
        self._last[key] = arr
        return arr

    def empty(self, shape, dtype=float, order="C", **kw):
        return self._poison(self._real.empty(shape, dtype=dtype, order=order, **kw))

    def empty_like(self, prototype, dtype=None, order="K", subok=True, shape=None, **kw):
        return self._poison(self._real.empty_like(prototype, dtype=dtype, order=order, subok=subok, shape=shape, **kw))

    def reset(self):
        self._last.clear()


_installed = {}


def install(module):
    """Replace module.np by a proxy (idempotent); returns the proxy."""
    name = module.__name__
    if name not in _installed:
        proxy = AllocProxy(module.np if not isinstance(module.np, AllocProxy) else module.np._real)
        module.np = proxy
        _installed[name] = proxy
    return _installed[name]

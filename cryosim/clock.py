"""Clock seam: every wall-clock read that can reach a durable byte or a result goes through here.

mrcfile stamps ``datetime.now()`` into the label of every header it creates; left alone, file bytes
(and with them the run digest) would depend on when the run happened.  ``mrcfile.mrcobject.datetime``
is replaced by a class whose ``now()`` reads the simulator's logical clock: a fixed epoch plus one
second per guarded call, reset at the start of every run.
"""
import datetime as _dt

EPOCH = _dt.datetime(2024, 1, 1, 0, 0, 0)
_ticks = [0]


def reset():
    _ticks[0] = 0
    _uuid_n[0] = 0


def advance(n=1):
    _ticks[0] += n


def now():
    return EPOCH + _dt.timedelta(seconds=_ticks[0])


class SimDatetime(_dt.datetime):
    @classmethod
    def now(cls, tz=None):
        return now()

    @classmethod
    def utcnow(cls):
        return now()

    @classmethod
    def today(cls):
        return now()


class _Names:
    """deterministic replacement for tempfile's random name sequence (names restart with every run)"""

    def __init__(self):
        self.n = 0

    def __iter__(self):
        return self

    def __next__(self):
        self.n += 1
        return "sim%05d" % self.n


_uuid_n = [0]


def install():
    import os
    import tempfile
    import uuid
    from . import simfs
    if not getattr(uuid, "_cryosim", False):
        real_uuid4, real_getpid = uuid.uuid4, os.getpid

        def uuid4():
            fs = simfs.current()
            if fs is not None and fs.active:      # temp-file names made by library code must not depend on the OS
                _uuid_n[0] += 1
                return uuid.UUID(int=_uuid_n[0])
            return real_uuid4()

        def getpid():
            fs = simfs.current()
            return 4242 if (fs is not None and fs.active) else real_getpid()

        uuid.uuid4 = uuid4
        os.getpid = getpid
        uuid._cryosim = True
    import mrcfile.mrcobject as mo
    mo.datetime = SimDatetime
    tempfile._name_sequence = _Names()

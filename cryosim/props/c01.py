"""C01 - EM particle-list files round-trip losslessly for any table column order.

Workload: simulated notebook sessions build tables (any column order, NaN holes), wrap them as
Motl / EmMotl, write them to a tiny shared path namespace, restart, load them back, overwrite
longer/shorter/garbage files - with disk faults and crashes armed inside the calls.
Oracle: independent EM byte parser on the durable bytes after every acknowledged write; row model
on every fault-free load of a path whose content is known; recovery obligation after faults.
"""
import numpy as np
import pandas as pd

from ..core import Property, Violation, Skip, outcome_ack, digest_df, ROOT
from ..gen import MOTL_COLS, gen_motl_rows, rows_to_matrix
from ..models import em as emmodel

from cryocat import cryomotl

PATHS = [ROOT + "/work/a.em", ROOT + "/work/b.em", ROOT + "/data/a.em", "rel.em"]


def expected32(matrix):
    """What the file must hold / a load must return: single-precision rounding, NaN -> 0."""
    m = np.where(np.isnan(matrix), 0.0, matrix)
    return m.astype(np.float32)


class C01(Property):
    ID = "C01"
    SESSIONS = ["s0", "s1"]
    RUNS = {"quick": (6000, 6000), "thorough": (150000, 150000)}
    MUST_REACH = {"probes": ["overwrite_shorter", "overwrite_longer", "recovery_after_fault", "stale_target", "in_place_edit", "nondefault_table_index"], "faults": ["crash", "enospc", "eio_write", "eio_read", "short_write", "short_read", "eintr", "open_fail", "toctou_created"]}

    def config(self, rng, tier, faulty):
        big = tier == "thorough"
        cfg = {
            "max_steps": rng.pick([5, 8, 12]),
            "max_rows": rng.pick([1, 3, 8, 40] if not big else [1, 3, 8, 40, 120]),
            "nan_rate": rng.pick([0.0, 0.0, 0.05, 0.3]),
            "permute": rng.chance(0.8),
            "wild": rng.chance(0.6),
            "env_rate": rng.pick([0.1, 0.2, 0.3]),
            "env_kinds": ["env.restart", "env.restart", "env.foreign_put", "env.cwd"],
            "fault_rate": 0.0,
            "fault_kinds": [],
        }
        if faulty:
            kinds = ["enospc", "eio_write", "eio_read", "short_write", "short_read", "eintr", "crash", "open_fail",
                     "toctou"]
            rng.shuffle(kinds)
            cfg["fault_kinds"] = sorted(kinds[: rng.randrange(1, len(kinds) + 1)])
            cfg["fault_rate"] = rng.pick([0.3, 0.5, 0.7])
            cfg["env_kinds"] = cfg["env_kinds"] + rng.pick([[], ["env.capacity", "env.heal"],
                                                            ["env.handle_budget", "env.heal"],
                                                            ["env.readonly", "env.heal"],
                                                            ["env.foreign_delete"]])
        return cfg

    def init(self, world):
        world.fs.mkdir_raw(ROOT + "/data")
        world.fs.mkdir_raw(ROOT + "/elsewhere")
        world.model["n"] = 0

    def paths(self, world):
        return [world.fs.cwd + "/" + p if not p.startswith("/") else p for p in PATHS]

    # ------------------------------------------------------------------ generation
    def gen_aftermath(self, world, step, rng):
        """a write of a list failed: the list is still in the caller's hands - written somewhere else and loaded back"""
        if rng.chance(0.5):
            yield from Property.gen_aftermath(self, world, step, rng)      # the plain retry
        if step["op"] == "write" and step.get("h") in world.session(step["sess"]):
            other = rng.pick([p for p in PATHS if p != step["path"]] or PATHS)
            world.model["n"] += 1
            yield {"op": "write", "sess": step["sess"], "h": step["h"], "path": other, "api": step["api"]}
            yield {"op": "load", "sess": step["sess"], "path": other, "h": "m%d" % world.model["n"],
                   "api": rng.pick(["Motl.load", "EmMotl", "EmMotl.read_in"])}

    def gen_step(self, world, rng):
        plan = world.model.setdefault("plan", [])
        while plan:
            st = plan.pop(0)
            if st["h"] in world.session(st["sess"]):
                return st
        sess = rng.pick(self.SESSIONS)
        handles = sorted(world.session(sess))
        written = [p for p in PATHS]
        ops = [("new", 3)]
        if handles:
            ops += [("write", 5), ("copy", 1), ("mutate", 2)]
        ops += [("load", 4)]
        op = rng.weighted(ops)
        cfg = world.cfg
        if op == "new":
            world.model["n"] += 1
            n = rng.randrange(1, cfg["max_rows"] + 1)
            cols = list(range(20))
            if cfg["permute"]:
                rng.shuffle(cols)
            st = {"op": "new", "sess": sess, "h": "m%d" % world.model["n"],
                  "wrap": rng.pick(["Motl", "EmMotl", "EmMotl(Motl)"]),
                  "cols": cols, "rows": gen_motl_rows(rng, n, cfg["nan_rate"], cfg["wild"], blanks=True)}
            style = rng.pick(["default", "default", "shuffled", "gaps"])
            if style == "shuffled":
                st["index"] = rng.perm(n)
            elif style == "gaps":
                st["index"] = sorted(rng.sample(range(3 * n + 2), n))
            return st
        if op == "write":
            return {"op": "write", "sess": sess, "h": rng.pick(handles), "path": rng.pick(written),
                    "api": rng.pick(["Motl.write_out", "EmMotl.write_out"]), "io": True,
                    "hint": {"write": 2, "stat": 4, "any": 8}}
        if op == "copy":
            world.model["n"] += 1
            return {"op": "copy", "sess": sess, "src": rng.pick(handles), "h": "m%d" % world.model["n"]}
        if op == "mutate":
            return {"op": "mutate", "sess": sess, "h": rng.pick(handles), "how": rng.pick(["scale", "renumber", "remove", "remove"]),
                    "factor": rng.pick([2.0, 0.5, 4.0]), "pos": rng.randrange(0, 40)}
        world.model["n"] += 1
        st = {"op": "load", "sess": sess, "path": rng.pick(written), "h": "m%d" % world.model["n"],
              "api": rng.pick(["Motl.load", "EmMotl", "EmMotl.read_in"]), "io": True,
              "hint": {"read": 3, "stat": 2, "any": 6}}
        if rng.chance(0.35):
            # the usual life of a loaded list: edit it (here: drop a particle), write it out again
            plan.append({"op": "mutate", "sess": sess, "h": st["h"], "how": rng.pick(["remove", "remove", "scale"]),
                         "factor": 2.0, "pos": rng.randrange(0, 40)})
            plan.append({"op": "write", "sess": sess, "h": st["h"], "path": rng.pick(written + [st["path"]]),
                         "api": rng.pick(["Motl.write_out", "EmMotl.write_out", "EmMotl.write_out"]), "io": True,
                         "hint": {"write": 2, "stat": 4, "any": 8}})
        return st

    def gen_recovery(self, world, rng):
        """After faults stop: every path left indeterminate must accept a fault-free write + load."""
        steps = []
        for p in sorted(world.pending_recovery):
            world.model["n"] += 2
            n = world.model["n"]
            steps.append({"op": "new", "sess": "s0", "h": "m%d" % (n - 1), "wrap": "Motl", "cols": rng.perm(20),
                          "rows": gen_motl_rows(rng, rng.randrange(1, 6), 0.1, False)})
            steps.append({"op": "write", "sess": "s0", "h": "m%d" % (n - 1), "path": p, "api": "Motl.write_out"})
            steps.append({"op": "load", "sess": "s0", "path": p, "h": "m%d" % n, "api": "Motl.load"})
        return steps

    # ------------------------------------------------------------------ execution + oracle
    def abspath(self, world, p):
        return p if p.startswith("/") else world.fs.cwd + "/" + p

    def apply(self, world, step):
        op = step["op"]
        sess = world.session(step["sess"])
        if op == "new":
            mat = rows_to_matrix(step["rows"])
            names = [MOTL_COLS[j] for j in step["cols"]]
            df = pd.DataFrame({nm: mat[:, MOTL_COLS.index(nm)] for nm in names}, columns=names)
            if step.get("index") and len(step["index"]) == len(df):
                df.index = step["index"]   # a sorted / filtered table: same particles in the same row order
                world.probes["nondefault_table_index"] += 1
            wrap = step["wrap"]

            def build():
                if wrap == "Motl":
                    return cryomotl.Motl(df)
                if wrap == "EmMotl":
                    return cryomotl.EmMotl(df)
                return cryomotl.EmMotl(cryomotl.EmMotl(cryomotl.Motl(df).df))

            out = world.call(step["sess"], build)
            if not out.ok:
                raise Violation("construct_raised", "new:%s:%s" % (wrap, out.describe()),
                                "building a %s from a table with the 20 motl fields raised: %r" % (wrap, out.exc))
            sess[step["h"]] = {"obj": out.value, "model": mat.copy()}
            world.note("new %s n=%d" % (wrap, len(mat)))
            return []
        if op == "copy":
            if step["src"] not in sess:
                raise Skip()
            src = sess[step["src"]]
            out = world.call(step["sess"], cryomotl.Motl.load, src["obj"])
            if not out.ok:
                raise Violation("copy_raised", "copy:%s" % out.describe(), "Motl.load(motl) raised %r" % (out.exc,))
            sess[step["h"]] = {"obj": out.value, "model": src["model"].copy()}
            return []
        if op == "mutate":
            # an in-place edit of a live list (the user keeps working with it): a list loaded from a file must not
            # share its table with anything a later load of the same file returns
            if step["h"] not in sess:
                raise Skip()
            h = sess[step["h"]]
            obj = h["obj"]
            if step["how"] == "scale":
                out = world.call(step["sess"], obj.scale_coordinates, step["factor"])
                for c in ("x", "y", "z", "shift_x", "shift_y", "shift_z"):
                    h["model"][:, MOTL_COLS.index(c)] *= step["factor"]
            elif step["how"] == "remove":
                # the list shrinks (one particle removed through its geom5 value) and is written again later
                n = len(h["model"])
                if n < 2:
                    raise Skip()
                j = step["pos"] % n
                col = MOTL_COLS.index("geom5")
                tag = h["model"][j, col]
                if n < 2 or np.isnan(tag) or (h["model"][:, col] == tag).sum() != 1 or np.isnan(h["model"][:, col]).any():
                    raise Skip()
                out = world.call(step["sess"], obj.remove_feature, "geom5", float(tag))
                h["model"] = np.delete(h["model"], j, axis=0)
                world.probes["particle_count_changed"] += 1
            else:
                out = world.call(step["sess"], obj.renumber_particles)
                h["model"][:, MOTL_COLS.index("subtomo_id")] = np.arange(1, len(h["model"]) + 1)
            if not out.ok:
                raise Violation("mutate_raised", "mutate:%s" % out.describe(), "%s raised %r" % (step["how"], out.exc))
            world.probes["in_place_edit"] += 1
            return []
        if op == "write":
            if step["h"] not in sess:
                raise Skip()
            h = sess[step["h"]]
            path = self.abspath(world, step["path"])
            obj = h["obj"]
            api = step["api"]
            if api == "EmMotl.write_out" and not isinstance(obj, cryomotl.EmMotl):
                api = "Motl.write_out"
            before = world.fs.get(path)
            if before is not None and len(before) > 512 + 80 * len(h["model"]):
                world.probes["overwrite_shorter"] += 1
            elif before is not None and len(before) < 512 + 80 * len(h["model"]):
                world.probes["overwrite_longer"] += 1

            def do():
                if api == "Motl.write_out":  # the generic dispatcher, whatever the handle's class
                    cryomotl.Motl.write_out(obj, step["path"], "emmotl")
                else:
                    obj.write_out(step["path"])

            out = world.call(step["sess"], do, faults=step.get("faults", ()))
            world.note("write %s -> %s" % (api, out.describe()))
            if outcome_ack(out):
                exp = expected32(h["model"])
                world.ack(path, exp)
                self.check_bytes(world, path, exp, "after write")
            elif out.faulted:
                world.indeterminate(path)
                if out.crashed and out.fired and "crash_torn" in world.fs.fired:
                    world.probes["crash_torn"] = world.fs.fired["crash_torn"]
            else:
                raise Violation("write_raised", "write:%s:%s" % (api, out.describe()),
                                "fault-free %s of a %d-row list raised %r\n%s" % (api, len(h["model"]), out.exc, out.tb))
            return [path]
        if op == "load":
            path = self.abspath(world, step["path"])
            api = step["api"]

            def do():
                if api == "Motl.load":
                    return cryomotl.Motl.load(step["path"])
                if api == "EmMotl":
                    return cryomotl.EmMotl(step["path"])
                df, _hdr = cryomotl.EmMotl.read_in(step["path"])
                return cryomotl.EmMotl(df)

            exp = world.known(path)
            out = world.call(step["sess"], do, faults=step.get("faults", ()))
            world.note("load %s -> %s" % (api, out.describe()))
            if outcome_ack(out):
                df = out.value.df
                if exp is not None:
                    self.check_table(world, df, exp, "load(%s) of %s" % (api, path))
                    world.note(digest_df(df))
                    world.stats["judged_loads"] += 1
                if sorted(df.columns) == sorted(MOTL_COLS):
                    try:
                        mat = np.column_stack([df[c].to_numpy(dtype=float) for c in MOTL_COLS]).reshape(len(df), 20)
                        sess[step["h"]] = {"obj": out.value, "model": mat}
                    except (ValueError, TypeError):
                        pass
            elif not out.faulted and exp is not None:
                raise Violation("load_raised", "load:%s:%s" % (api, out.describe()),
                                "fault-free %s of a file acknowledged as written raised %r\n%s" % (api, out.exc, out.tb))
            return []
        raise Skip()

    def check_bytes(self, world, path, exp, when):
        world.oracle()
        data = world.fs.get(path)
        if data is None:
            raise Violation("file_missing", "write:no_file", "%s: %s does not exist" % (when, path))
        try:
            em = emmodel.parse(data)
        except emmodel.EmFormatError as e:
            raise Violation("em_invalid", "write:em_invalid", "%s: %s is not a valid EM file: %s" % (when, path, e))
        n = exp.shape[0]
        if em["code"] != 5:
            raise Violation("em_dtype", "write:code%d" % em["code"], "%s: EM data-type code %d, expected 5 (float32)" % (
                when, em["code"]))
        if em["dims"] != (20, n, 1):
            raise Violation("em_dims", "write:dims", "%s: EM dims (x,y,z)=%r, expected (20,%d,1)" % (when, em["dims"], n))
        got = em["array"][:, :, 0].T  # rows x fields
        self.compare(got, exp, "%s: bytes of %s" % (when, path), "file_values")

    def check_table(self, world, df, exp, what):
        world.oracle()
        if sorted(df.columns) != sorted(MOTL_COLS) or len(df.columns) != 20:
            raise Violation("load_columns", "load:columns", "%s: columns %r" % (what, list(df.columns)))
        if len(df) != exp.shape[0]:
            raise Violation("load_rows", "load:nrows", "%s: %d rows, expected %d" % (what, len(df), exp.shape[0]))
        got = np.column_stack([df[c].to_numpy(dtype=float) for c in MOTL_COLS]).reshape(len(df), 20)
        self.compare(got, exp.astype(np.float64), what, "load_values")

    def compare(self, got, exp, what, clause):
        got = np.asarray(got, dtype=np.float64)
        exp = np.asarray(exp, dtype=np.float64)
        bad = ~(got == exp)
        if bad.any():
            r, c = np.argwhere(bad)[0]
            # classify: a pure column permutation is the signature of the unordered-write defect
            sig = "values"
            if got.shape == exp.shape and sorted(map(tuple, got.T.tolist())) == sorted(map(tuple, exp.T.tolist())):
                sig = "column_permutation"
            raise Violation(clause, sig, "%s: row %d field %s is %r, expected %r (%d cells differ)" % (
                what, r, MOTL_COLS[c], got[r, c], exp[r, c], int(bad.sum())))

    def final(self, world):
        if world.pending_recovery and world.cfg.get("recovery_done"):
            p = sorted(world.pending_recovery)[0]
            raise Violation("no_recovery", "recovery", "path %s still indeterminate after the recovery phase" % p)

    # ------------------------------------------------------------------ shrinking
    def shrink_step(self, step):
        if step["op"] == "new":
            rows = step["rows"]
            if step.get("index"):
                yield {k: v for k, v in step.items() if k != "index"}
            if len(rows) > 1:
                for keep in (slice(0, len(rows) // 2), slice(len(rows) // 2, None), slice(0, len(rows) - 1)):
                    s2 = dict(step, rows=rows[keep])
                    s2.pop("index", None)
                    yield s2
            if step["cols"] != list(range(20)):
                yield dict(step, cols=list(range(20)))
                cols = list(step["cols"])
                for i in range(20):
                    if cols[i] != i:
                        j = cols.index(i)
                        c2 = list(cols)
                        c2[i], c2[j] = c2[j], c2[i]
                        yield dict(step, cols=c2)
                        break
            simple = [[float(i * 20 + j) for j in range(20)] for i in range(len(rows))]
            if rows != simple:
                yield dict(step, rows=simple)
            if step["wrap"] != "Motl":
                yield dict(step, wrap="Motl")
        if step["op"] in ("write", "load") and step.get("path") != PATHS[0]:
            yield dict(step, path=PATHS[0])

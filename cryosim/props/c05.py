"""C05 - pose bookkeeping: position x+shift and orientation transform rigidly.

Sessions hold up to three live particle lists and drive them through histories of
update_coordinates / scale_coordinates / shift_positions / apply_rotation / flip_handedness (with
the tomogram dimensions given as list, table, array or *file*), copies (inplace=False,
Motl.load(motl)) and save -> restart -> load through an EM file.  A pose model (complete position
vector + 3x3 orientation matrix per particle, explicit elementary matrices, no scipy) is stepped in
lock-step and compared after every operation.
Stated plainly: there is no I/O or schedule seam inside the in-memory operations; the simulator
contributes history search, lock-step refinement, restart through storage and minimised replay.
Disk faults apply to the dimension-file and save/load steps only.
"""
import numpy as np
import pandas as pd
from scipy.spatial.transform import Rotation as sci_rot  # only to build the argument apply_rotation requires

from ..core import Property, Violation, Skip, outcome_ack, digest_df, ROOT
from ..gen import MOTL_COLS
from ..models import pose

from cryocat import cryomotl

IDX = {c: i for i, c in enumerate(MOTL_COLS)}
POSE_COLS = ["x", "y", "z", "shift_x", "shift_y", "shift_z", "phi", "theta", "psi"]
OTHER = [c for c in MOTL_COLS if c not in POSE_COLS]
PATHS = [ROOT + "/work/a.em", ROOT + "/work/b.em", "rel.em"]
DIMFILES = [ROOT + "/work/dims.txt", "dims_rel.txt"]
TOL_POS = 1e-7
TOL_ROT = 1e-6


class Pose:
    """model of one particle list"""

    def __init__(self, x, shift, R, other):
        self.x = np.array(x, dtype=float).reshape(-1, 3)
        self.shift = np.array(shift, dtype=float).reshape(-1, 3)
        self.R = [np.array(r, dtype=float) for r in R]
        self.other = np.array(other, dtype=float).reshape(len(self.R), len(OTHER))

    def copy(self):
        return Pose(self.x.copy(), self.shift.copy(), [r.copy() for r in self.R], self.other.copy())

    @property
    def n(self):
        return len(self.R)

    @property
    def pos(self):
        return self.x + self.shift


def gen_list(rng, n, ntomo):
    rows = []
    style = rng.pick(["int", "frac", "half", "neg"])
    for i in range(n):
        if style == "int":
            x = [float(rng.randrange(1, 900)) for _ in range(3)]
        elif style == "frac":
            x = [round(rng.uniform(1, 900), rng.pick([1, 3])) for _ in range(3)]
        elif style == "half":
            x = [rng.randrange(1, 900) + 0.5 for _ in range(3)]
        else:
            x = [round(rng.uniform(-200, 200), 2) for _ in range(3)]
        sh = rng.pick([[0.0, 0.0, 0.0], [round(rng.uniform(-4, 4), rng.pick([1, 3])) for _ in range(3)],
                       [rng.pick([-1.5, -0.5, 0.5, 2.5]) for _ in range(3)]])
        rows.append({"x": x, "shift": sh, "ang": pose.random_rotation_angles(rng), "tomo": rng.randrange(1, ntomo + 1),
                     "other": [round(rng.uniform(0, 50), 3) for _ in OTHER]})
    return rows


class C05(Property):
    ID = "C05"
    SESSIONS = ["s0", "s1"]
    RUNS = {"quick": (4000, 1500), "thorough": (100000, 30000)}
    MUST_REACH = {"probes": ["half_integer_tie", "flip_with_nonzero_shift_z", "dimension_file", "dimension_object_reused", "single_row_dimension_table", "inplace_false_copy", "restart_through_em_file", "gapped_index"], "faults": ["crash", "eio_read", "open_fail"]}

    def config(self, rng, tier, faulty):
        cfg = {
            "max_steps": rng.pick([4, 6, 8]),
            "max_rows": rng.pick([1, 2, 5, 12] if tier == "quick" else [1, 2, 5, 12, 30]),
            "ntomo": rng.pick([1, 1, 2, 4]),
            "env_rate": rng.pick([0.0, 0.05, 0.1]),
            "env_kinds": ["env.restart", "env.cwd", "env.foreign_put"],
            "fault_rate": 0.0, "fault_kinds": [],
        }
        if faulty:
            kinds = ["enospc", "eio_write", "eio_read", "short_write", "short_read", "eintr", "crash", "open_fail", "toctou"]
            rng.shuffle(kinds)
            cfg["fault_kinds"] = sorted(kinds[: rng.randrange(1, len(kinds) + 1)])
            cfg["fault_rate"] = rng.pick([0.4, 0.7])
            cfg["env_kinds"] = cfg["env_kinds"] + rng.pick([[], ["env.handle_budget", "env.heal"], ["env.foreign_delete"]])
        return cfg

    def init(self, world):
        world.fs.mkdir_raw(ROOT + "/elsewhere")
        world.fs.mkdir_raw(ROOT + "/data")
        world.model["n"] = 0
        world.model["dims"] = {}

    def paths(self, world):
        return [self.abspath(world, p) for p in PATHS + DIMFILES]

    def new_handle(self, world):
        world.model["n"] += 1
        return "m%d" % world.model["n"]

    # ------------------------------------------------------------------ generation
    def gen_step(self, world, rng):
        sess = rng.pick(self.SESSIONS)
        hs = world.session(sess)
        handles = sorted(k for k in hs if not k.startswith("_"))
        cfg = world.cfg
        if not handles or (len(handles) < 3 and rng.chance(0.2)):
            n = rng.randrange(1, cfg["max_rows"] + 1)
            return {"op": "new", "sess": sess, "h": self.new_handle(world), "rows": gen_list(rng, n, cfg["ntomo"]),
                    "wrap": rng.pick(["Motl", "EmMotl"])}
        h = rng.pick(handles)
        op = rng.weighted([("update", 3), ("scale", 2), ("shift", 4), ("rotate", 4), ("flip", 4), ("save", 2), ("load", 2),
                           ("copy", 1), ("filter", 2)])
        if op == "filter":
            return {"op": op, "sess": sess, "h": h, "tomo": rng.randrange(1, cfg["ntomo"] + 1), "pos": rng.randrange(0, 4)}
        if op == "update":
            return {"op": op, "sess": sess, "h": h}
        if op == "scale":
            return {"op": op, "sess": sess, "h": h, "factor": rng.pick([2.0, 0.5, 4.0, 1.37, 0.25, 3.0])}
        if op == "shift":
            s = rng.pick([[1.0, 0.0, 0.0], [0.0, 0.0, 5.0], [round(rng.uniform(-10, 10), 2) for _ in range(3)]])
            inplace = rng.chance(0.6)
            return {"op": op, "sess": sess, "h": h, "shift": s, "inplace": inplace,
                    "new": None if inplace else self.new_handle(world), "as": rng.pick(["list", "array"])}
        if op == "rotate":
            return {"op": op, "sess": sess, "h": h, "ang": pose.random_rotation_angles(rng)}
        if op == "flip":
            ntomo = cfg["ntomo"]
            dims = {str(t): [float(rng.pick([500, 928, 1024])), float(rng.pick([500, 960])), float(rng.pick([200, 300, 463, 1000]))]
                    for t in range(1, ntomo + 1)}
            kinds = ["table", "array4", "file4"] if ntomo > 1 else ["list", "array3", "table", "array4", "file3", "file4", "df3"]
            k = rng.pick(kinds)
            prev = world.model.get("last_dims")
            if prev is not None and set(prev) == set(dims) and rng.chance(0.7):
                dims = prev  # the same dimensions again: lets the caller's table object be re-used
                if world.model.get("last_dims_kind") in kinds and rng.chance(0.7):
                    k = world.model["last_dims_kind"]
            world.model["last_dims"] = dims
            world.model["last_dims_kind"] = k
            st = {"op": op, "sess": sess, "h": h, "dims": dims, "as": k, "dimfile": rng.pick(DIMFILES), "reuse": rng.chance(0.7),
                  "table_order": rng.perm(len(dims)) if rng.chance(0.6) else None}
            if k.startswith("file"):
                st["io"] = True
                st["hint"] = {"read": 2, "stat": 1, "any": 4}
            return st
        if op == "save":
            return {"op": op, "sess": sess, "h": h, "path": rng.pick(PATHS), "io": True, "hint": {"write": 1, "any": 6}}
        if op == "load":
            return {"op": op, "sess": sess, "path": rng.pick(PATHS), "h": self.new_handle(world), "io": True,
                    "hint": {"read": 3, "any": 5}}
        return {"op": "copy", "sess": sess, "src": h, "h": self.new_handle(world)}

    def gen_recovery(self, world, rng):
        steps = []
        for p in sorted(world.pending_recovery):
            if p.endswith(".em"):
                h = self.new_handle(world)
                steps.append({"op": "new", "sess": "s0", "h": h, "rows": gen_list(rng, 2, 1), "wrap": "Motl"})
                steps.append({"op": "save", "sess": "s0", "h": h, "path": p})
                steps.append({"op": "load", "sess": "s0", "path": p, "h": self.new_handle(world)})
        return steps

    # ------------------------------------------------------------------ oracle
    def compare(self, world, df, m, what, check_split=True):
        """actual table vs pose model"""
        world.oracle()
        if len(df) != m.n:
            raise Violation("rows", "nrows", "%s: %d particles, expected %d" % (what, len(df), m.n))
        if sorted(df.columns) != sorted(MOTL_COLS):
            raise Violation("columns", "columns", "%s: columns %r" % (what, list(df.columns)))
        a = {c: df[c].to_numpy(dtype=float) for c in MOTL_COLS}
        scale = 1.0 + float(np.abs(m.pos).max()) if m.n else 1.0
        for i in range(m.n):
            gx = np.array([a["x"][i], a["y"][i], a["z"][i]])
            gs = np.array([a["shift_x"][i], a["shift_y"][i], a["shift_z"][i]])
            gp = gx + gs
            if not np.all(np.abs(gp - m.pos[i]) <= TOL_POS * scale):
                ax = int(np.argmax(np.abs(gp - m.pos[i])))
                raise Violation("position", "complete_position:%s" % "xyz"[ax],
                                "%s: particle %d complete position %r, expected %r" % (what, i, gp.tolist(), m.pos[i].tolist()))
            if check_split and not (np.all(np.abs(gx - m.x[i]) <= TOL_POS * scale) and np.all(np.abs(gs - m.shift[i]) <= TOL_POS * scale)):
                raise Violation("position_split", "x_shift_split", "%s: particle %d x=%r shift=%r, expected x=%r shift=%r" % (
                    what, i, gx.tolist(), gs.tolist(), m.x[i].tolist(), m.shift[i].tolist()))
            Rg = pose.R_particle(a["phi"][i], a["theta"][i], a["psi"][i])
            err = pose.rot_err(Rg, m.R[i])
            if not err <= TOL_ROT:
                raise Violation("orientation", "rotation", "%s: particle %d orientation zxz(%r, %r, %r) differs from the model by %.3g" % (
                    what, i, a["phi"][i], a["theta"][i], a["psi"][i], err))
            for j, c in enumerate(OTHER):
                v = a[c][i]
                w = m.other[i, j]
                if not (v == w or (np.isnan(v) and np.isnan(w))):
                    raise Violation("untouched_field", "field:%s" % c, "%s: particle %d field %s changed from %r to %r" % (what, i, c, w, v))

    def get(self, world, step, key="h"):
        hs = world.session(step["sess"])
        if step[key] not in hs:
            raise Skip()
        return hs[step[key]]

    # ------------------------------------------------------------------ execution
    def apply(self, world, step):
        fn = getattr(self, "op_" + step["op"], None)
        if fn is None:
            raise Skip()
        return fn(world, step)

    def model_from_rows(self, rows):
        other_idx = {c: j for j, c in enumerate(OTHER)}
        others = []
        for r in rows:
            o = list(r["other"])
            o[other_idx["tomo_id"]] = float(r["tomo"])
            others.append(o)
        return Pose([r["x"] for r in rows], [r["shift"] for r in rows], [pose.R_particle(*r["ang"]) for r in rows], others)

    def op_new(self, world, step):
        rows = step["rows"]
        m = self.model_from_rows(rows)
        mat = np.zeros((len(rows), 20))
        for i, r in enumerate(rows):
            mat[i, IDX["x"]], mat[i, IDX["y"]], mat[i, IDX["z"]] = r["x"]
            mat[i, IDX["shift_x"]], mat[i, IDX["shift_y"]], mat[i, IDX["shift_z"]] = r["shift"]
            mat[i, IDX["phi"]], mat[i, IDX["theta"]], mat[i, IDX["psi"]] = r["ang"]
            for j, c in enumerate(OTHER):
                mat[i, IDX[c]] = m.other[i, j]
        df = pd.DataFrame(mat, columns=MOTL_COLS)
        cls = cryomotl.Motl if step["wrap"] == "Motl" else cryomotl.EmMotl
        out = world.call(step["sess"], cls, df)
        if not out.ok:
            raise Violation("construct_raised", "new:%s" % out.describe(), "%s(table) raised %r" % (step["wrap"], out.exc))
        world.session(step["sess"])[step["h"]] = {"obj": out.value, "model": m}
        self.compare(world, out.value.df, m, "new list")
        return []

    def mutate(self, world, step, h, fn, what, newmodel, check_split=True, faults=()):
        out = world.call(step["sess"], fn, faults=faults)
        world.note("%s -> %s" % (what, out.describe()))
        return out

    def op_update(self, world, step):
        h = self.get(world, step)
        m = h["model"]
        out = world.call(step["sess"], h["obj"].update_coordinates)
        if not out.ok:
            raise Violation("op_raised", "update_coordinates:%s" % out.describe(), "update_coordinates raised %r\n%s" % (out.exc, out.tb))
        self.compare(world, h["obj"].df, m, "after update_coordinates", check_split=False)
        a = h["obj"].df
        gx = a[["x", "y", "z"]].to_numpy(dtype=float)
        gs = a[["shift_x", "shift_y", "shift_z"]].to_numpy(dtype=float)
        if not (gx == np.floor(gx)).all():
            raise Violation("update_coordinates", "not_integer", "after update_coordinates: x,y,z are not integers: %r" % gx[~(gx == np.floor(gx))][:3].tolist())
        if not (np.abs(gs) <= 0.5 + 1e-9).all():
            raise Violation("update_coordinates", "shift_gt_half", "after update_coordinates: |shift| > 0.5: %r" % gs[np.abs(gs) > 0.5 + 1e-9][:3].tolist())
        if np.any(np.abs(np.abs(m.pos - np.floor(m.pos)) - 0.5) < 1e-12):
            world.probes["half_integer_tie"] += 1
        m.x, m.shift = gx.copy(), gs.copy()
        world.stats["acks"] += 1
        return []

    def op_filter(self, world, step):
        """remove_feature leaves the original row labels behind (a gapped index): every later operation must still
        treat the remaining particles one by one"""
        h = self.get(world, step)
        m = h["model"]
        other_idx = {c: j for j, c in enumerate(OTHER)}
        tid = m.other[:, other_idx["tomo_id"]] if m.n else np.array([])
        if m.n >= 2 and (tid == step["tomo"]).any() and not (tid == step["tomo"]).all():
            keep = tid != step["tomo"]
            out = world.call(step["sess"], h["obj"].remove_feature, "tomo_id", float(step["tomo"]))
        elif m.n >= 2:
            # a single tomogram: remove one particle by its (unique) tag instead, from the middle of the table
            j = step["pos"] % m.n
            tag = m.other[j, other_idx["geom5"]]
            if (m.other[:, other_idx["geom5"]] == tag).sum() != 1:
                raise Skip()
            keep = np.arange(m.n) != j
            out = world.call(step["sess"], h["obj"].remove_feature, "geom5", float(tag))
        else:
            raise Skip()
        if not out.ok:
            raise Violation("op_raised", "remove_feature:%s" % out.describe(), "remove_feature raised %r\n%s" % (out.exc, out.tb))
        h["model"] = Pose(m.x[keep], m.shift[keep], [r for r, k in zip(m.R, keep) if k], m.other[keep])
        self.compare(world, h["obj"].df, h["model"], "after remove_feature")
        world.probes["gapped_index"] += 1
        world.stats["acks"] += 1
        return []

    def op_scale(self, world, step):
        h = self.get(world, step)
        m = h["model"]
        f = step["factor"]
        out = world.call(step["sess"], h["obj"].scale_coordinates, f)
        if not out.ok:
            raise Violation("op_raised", "scale_coordinates:%s" % out.describe(), "scale_coordinates(%r) raised %r\n%s" % (f, out.exc, out.tb))
        m.x = m.x * f
        m.shift = m.shift * f
        self.compare(world, h["obj"].df, m, "after scale_coordinates(%r)" % f)
        world.stats["acks"] += 1
        return []

    def op_shift(self, world, step):
        h = self.get(world, step)
        m = h["model"]
        s = np.array(step["shift"], dtype=float)
        arg = list(step["shift"]) if step["as"] == "list" else s.copy()
        before = m.copy()
        out = world.call(step["sess"], h["obj"].shift_positions, arg, inplace=step["inplace"])
        if not out.ok:
            raise Violation("op_raised", "shift_positions:%s" % out.describe(), "shift_positions(%r) raised %r\n%s" % (step["shift"], out.exc, out.tb))
        moved = m.copy()
        for i in range(m.n):
            moved.shift[i] = m.shift[i] + m.R[i] @ s
        if step["inplace"]:
            h["model"] = moved
            self.compare(world, h["obj"].df, moved, "after shift_positions(%r)" % step["shift"])
        else:
            if out.value is None:
                raise Violation("shift_copy", "no_copy", "shift_positions(inplace=False) returned None")
            self.compare(world, out.value.df, moved, "copy returned by shift_positions(%r, inplace=False)" % step["shift"])
            self.compare(world, h["obj"].df, before, "source of shift_positions(inplace=False)")
            world.session(step["sess"])[step["new"]] = {"obj": out.value, "model": moved}
            world.probes["inplace_false_copy"] += 1
        world.stats["acks"] += 1
        return []

    def op_rotate(self, world, step):
        h = self.get(world, step)
        m = h["model"]
        Q = pose.R_particle(*step["ang"])
        out = world.call(step["sess"], h["obj"].apply_rotation, sci_rot.from_matrix(Q))
        if not out.ok:
            raise Violation("op_raised", "apply_rotation:%s" % out.describe(), "apply_rotation raised %r\n%s" % (out.exc, out.tb))
        m.R = [r @ Q for r in m.R]
        self.compare(world, h["obj"].df, m, "after apply_rotation(zxz%r)" % (tuple(step["ang"]),))
        world.stats["acks"] += 1
        return []

    def op_flip(self, world, step):
        h = self.get(world, step)
        m = h["model"]
        dims = step["dims"]
        other_idx = {c: j for j, c in enumerate(OTHER)}
        tomos = sorted({int(v) for v in m.other[:, other_idx["tomo_id"]]}) if m.n else []
        if any(str(t) not in dims for t in tomos):
            raise Skip()
        kind = step["as"]
        ids = sorted(int(k) for k in dims)
        if step.get("table_order") and len(step["table_order"]) == len(ids):
            ids = [ids[i] for i in step["table_order"]]   # the rows of a per-tomogram table come in any order
            if ids != sorted(ids):
                world.probes["unsorted_dimension_table"] += 1
        single = dims[str(ids[0])]
        if kind in ("list", "array3", "file3", "df3") and len({tuple(dims[str(t)]) for t in tomos}) > 1:
            kind = "table"
        targets = []
        if kind == "list":
            arg = list(single)
            use = {t: single for t in tomos}
        elif kind == "array3":
            arg = np.array(single)
            use = {t: single for t in tomos}
        elif kind == "df3":
            arg = self.pooled(world, step, "df3", single, lambda: pd.DataFrame([single]))
            use = {t: single for t in tomos}
        elif kind == "table":
            arg = self.pooled(world, step, "table", dims, lambda: pd.DataFrame([[i] + dims[str(i)] for i in ids], columns=["tomo_id", "x", "y", "z"]))
            use = {t: dims[str(t)] for t in tomos}
        elif kind == "array4":
            arg = self.pooled(world, step, "array4", dims, lambda: np.array([[i] + dims[str(i)] for i in ids], dtype=float))
            use = {t: dims[str(t)] for t in tomos}
        else:
            p = self.abspath(world, step["dimfile"])
            if kind == "file3":
                text = "%d %d %d\n" % tuple(single)
                use = {t: single for t in tomos}
            else:
                text = "".join("%d %d %d %d\n" % tuple([i] + dims[str(i)]) for i in ids)
                use = {t: dims[str(t)] for t in tomos}
            world.fs.put(p, text.encode())
            world.mfs[p] = ("known", {"kind": "dims"})
            arg = step["dimfile"]
            targets = [p]
            world.probes["dimension_file"] += 1
        if len(ids) == 1 and kind in ("table", "array4", "file4"):
            world.probes["single_row_dimension_table"] += 1
        out = world.call(step["sess"], h["obj"].flip_handedness, arg, faults=step.get("faults", ()))
        world.note("flip %s -> %s" % (kind, out.describe()))
        if outcome_ack(out):
            if np.any(m.shift[:, 2] != 0):
                world.probes["flip_with_nonzero_shift_z"] += 1
            S = np.diag([1.0, 1.0, -1.0])
            newm = m.copy()
            for i in range(m.n):
                t = int(m.other[i, other_idx["tomo_id"]])
                dz = use[t][2]
                newm.R[i] = S @ m.R[i] @ S
                pz = m.x[i, 2] + m.shift[i, 2]
                # the mirror image of the complete position; how it is split into z and shift_z is not stated
                newm.x[i, 2] = dz + 1.0 - m.x[i, 2]
                newm.shift[i, 2] = (dz + 1.0 - pz) - newm.x[i, 2]
            h["model"] = newm
            self.compare(world, h["obj"].df, newm, "after flip_handedness(%s)" % kind, check_split=False)
            a = h["obj"].df
            newm.x = a[["x", "y", "z"]].to_numpy(dtype=float).copy()
            newm.shift = a[["shift_x", "shift_y", "shift_z"]].to_numpy(dtype=float).copy()
            world.stats["acks"] += 1
        elif out.faulted:
            # a failed call may have flipped the orientation but not the position: the handle is unusable as a model
            world.session(step["sess"]).pop(step["h"], None)
        else:
            raise Violation("op_raised", "flip_handedness:%s:%s" % (kind, out.describe()),
                            "fault-free flip_handedness(%s dimensions) raised %r\n%s" % (kind, out.exc, out.tb))
        return targets

    def pooled(self, world, step, kind, content, make):
        """the caller's own dimension table: created once per session and handed to later calls again, as a
        notebook that keeps `dims = pd.DataFrame(...)` around would do"""
        import json
        pool = world.session(step["sess"]).setdefault("_dims", {"obj": None, "model": None, "pool": {}})["pool"]
        key = kind + json.dumps(content, sort_keys=True) + json.dumps(step.get("table_order"))
        if step.get("reuse") and key in pool:
            world.probes["dimension_object_reused"] += 1
            return pool[key]
        pool[key] = make()
        return pool[key]

    def op_copy(self, world, step):
        hs = world.session(step["sess"])
        if step["src"] not in hs:
            raise Skip()
        src = hs[step["src"]]
        out = world.call(step["sess"], cryomotl.Motl.load, src["obj"])
        if not out.ok:
            raise Violation("op_raised", "copy:%s" % out.describe(), "Motl.load(motl) raised %r" % (out.exc,))
        hs[step["h"]] = {"obj": out.value, "model": src["model"].copy()}
        self.compare(world, out.value.df, src["model"], "copy made by Motl.load(motl)")
        return []

    def op_save(self, world, step):
        h = self.get(world, step)
        m = h["model"]
        path = self.abspath(world, step["path"])
        df = h["obj"].df
        out = world.call(step["sess"], cryomotl.Motl.write_out, h["obj"], step["path"], "emmotl", faults=step.get("faults", ()))
        world.note("save -> %s" % out.describe())
        if outcome_ack(out):
            # what a later load must give: every field narrowed to single precision
            a32 = {c: df[c].to_numpy(dtype=float).astype(np.float32).astype(float) for c in MOTL_COLS}
            fm = Pose(np.column_stack([a32["x"], a32["y"], a32["z"]]),
                      np.column_stack([a32["shift_x"], a32["shift_y"], a32["shift_z"]]),
                      [pose.R_particle(a32["phi"][i], a32["theta"][i], a32["psi"][i]) for i in range(m.n)],
                      np.column_stack([a32[c] for c in OTHER]).reshape(m.n, len(OTHER)))
            world.ack(path, {"kind": "pose", "model": fm})
        elif out.faulted:
            world.indeterminate(path)
        else:
            raise Violation("op_raised", "save:%s" % out.describe(), "fault-free write_out raised %r\n%s" % (out.exc, out.tb))
        return [path]

    def op_load(self, world, step):
        path = self.abspath(world, step["path"])
        k = world.known(path)
        judge = isinstance(k, dict) and k.get("kind") == "pose"
        out = world.call(step["sess"], cryomotl.Motl.load, step["path"], faults=step.get("faults", ()))
        world.note("load -> %s" % out.describe())
        if outcome_ack(out):
            if judge:
                m = k["model"].copy()
                self.compare(world, out.value.df, m, "list loaded from %s" % path)
                world.session(step["sess"])[step["h"]] = {"obj": out.value, "model": m}
                world.probes["restart_through_em_file"] += 1
                world.note(digest_df(out.value.df))
        elif not out.faulted and judge:
            raise Violation("op_raised", "load:%s" % out.describe(), "fault-free load of %s raised %r\n%s" % (path, out.exc, out.tb))
        return []

    # ------------------------------------------------------------------ shrinking
    def shrink_step(self, step):
        if "rows" in step:
            rows = step["rows"]
            n = len(rows)
            if n > 1:
                for keep in (slice(0, n // 2), slice(n // 2, None), slice(0, n - 1), slice(1, None)):
                    yield dict(step, rows=rows[keep])
            for i, r in enumerate(rows):
                if r["shift"] != [0.0, 0.0, 0.0]:
                    yield dict(step, rows=rows[:i] + [dict(r, shift=[0.0, 0.0, 0.0])] + rows[i + 1:])
                if r["ang"] != [0.0, 0.0, 0.0]:
                    yield dict(step, rows=rows[:i] + [dict(r, ang=[0.0, 0.0, 0.0])] + rows[i + 1:])
                    yield dict(step, rows=rows[:i] + [dict(r, ang=[float(round(a / 10) * 10) for a in r["ang"]])] + rows[i + 1:])
                if r["x"] != [10.0, 20.0, 30.0]:
                    yield dict(step, rows=rows[:i] + [dict(r, x=[10.0, 20.0, 30.0])] + rows[i + 1:])
                if r["shift"] not in ([0.0, 0.0, 0.0], [0.0, 0.0, 1.0]):
                    yield dict(step, rows=rows[:i] + [dict(r, shift=[0.0, 0.0, 1.0])] + rows[i + 1:])
                if r["tomo"] != 1:
                    yield dict(step, rows=rows[:i] + [dict(r, tomo=1)] + rows[i + 1:])
        if step["op"] == "rotate" and step["ang"] != [90.0, 0.0, 0.0]:
            yield dict(step, ang=[90.0, 0.0, 0.0])
        if step["op"] == "shift" and step["shift"] != [1.0, 0.0, 0.0]:
            yield dict(step, shift=[1.0, 0.0, 0.0])
        if step["op"] == "flip":
            if step.get("table_order"):
                yield dict(step, table_order=None)
            if step["as"] not in ("list",):
                yield dict(step, **{"as": "list"})
                yield dict(step, **{"as": "table"})

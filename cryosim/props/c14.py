"""C14 - map rotation, placement, windowing, symmetrisation share one active convention.

The seam this property depends on is the *allocator*: rotate / symmetrize_volume / shift2 / recenter
build their results in ``np.empty`` buffers.  Every operation is therefore executed twice inside one
step under two different, legal allocator behaviours (zero pages, NaN, +1e30, -7, or the stale
content of the previous result of the same shape); results must be identical (fill independence)
and satisfy the statement's clauses.  Inputs are also passed as files on SimFS (EM/MRC written by
the independent format models) with disk faults armed inside the calls.
Oracle: active-rotation voxel model (explicit matrices), window model, mean-of-rotations model.
"""
import itertools

import numpy as np
import pandas as pd
from scipy import ndimage

from ..core import Property, Violation, Skip, outcome_ack, digest_array, ROOT
from ..gen import MOTL_COLS
from ..models import pose, em as emmodel, mrc as mrcmodel
from .. import alloc

from cryocat import cryomap, cryomotl

PROXY = alloc.install(cryomap)
IDX = {c: i for i, c in enumerate(MOTL_COLS)}
PATHS = [ROOT + "/work/tmpl.em", ROOT + "/work/vol.mrc", "rel_tmpl.mrc"]


def cube_rotations():
    seen, out = [], []
    for a in itertools.product([0.0, 90.0, 180.0, 270.0], repeat=3):
        R = np.rint(pose.R_particle(*a))
        if not any((R == S).all() for S in seen):
            seen.append(R)
            out.append(list(a))
    assert len(out) == 24
    return out


CUBE = cube_rotations()


def rotate_model(vol, R, order=3):
    """independent statement of the convention: density at offset v from floor(N/2) moves to R.v"""
    c = np.asarray(vol.shape) // 2
    M = np.asarray(R).T
    return ndimage.affine_transform(np.asarray(vol, dtype=float), M, offset=c - M @ c, order=order)


def gauss_blob(shape, centre, sigma):
    g = np.indices(shape).astype(float)
    d2 = sum((g[i] - centre[i]) ** 2 for i in range(3))
    return np.exp(-d2 / (2.0 * sigma * sigma))


class C14(Property):
    ID = "C14"
    SESSIONS = ["s0"]
    RUNS = {"quick": (600, 1000), "thorough": (12000, 20000)}
    MUST_REACH = {"probes": ["cube_rotations_checked", "blob_inside_box", "placed_particles", "template_list", "window_inside", "window_partial", "window_outside", "density_conserved_checked"], "faults": ["alloc_nan", "alloc_huge", "alloc_neg7", "alloc_stale", "eio_read"]}
    COMPONENTS = {"real": ["cryocat.cryomap / cryomotl (working tree of /repo)", "scipy.ndimage", "numpy", "emfile", "mrcfile"],
                  "stub": ["numpy.empty / empty_like as seen by cryocat.cryomap -> cryosim.alloc.AllocProxy (poisoning allocator)",
                           "OS file system -> cryosim.SimFS"]}

    def config(self, rng, tier, faulty):
        cfg = {
            "max_steps": rng.pick([2, 3, 5]),
            "fills": ["zero", "zero"] if not faulty else None,
            "env_rate": 0.05 if faulty else 0.0,
            "env_kinds": ["env.restart", "env.cwd"],
            "fault_rate": 0.0, "fault_kinds": [],
        }
        if faulty:
            cfg["fault_kinds"] = ["eio_read", "short_read", "eintr", "crash", "open_fail"]
            cfg["fault_rate"] = rng.pick([0.2, 0.4])
        return cfg

    def init(self, world):
        world.fs.mkdir_raw(ROOT + "/elsewhere")
        PROXY.reset()
        PROXY.fill = "zero"

    def paths(self, world):
        return [self.abspath(world, p) for p in PATHS]

    def draw_fills(self, world, rng):
        if world.cfg["fills"]:
            return list(world.cfg["fills"])
        a = rng.pick(alloc.FILLS)
        b = rng.pick([f for f in alloc.FILLS if f != a])
        return [a, b]

    # ------------------------------------------------------------------ generation
    def gen_step(self, world, rng):
        op = rng.weighted([("rot90", 3), ("rot_blob", 3), ("place", 3), ("extract", 3), ("croppad", 2), ("symmetrize", 4)])
        st = {"op": op, "sess": "s0", "fills": self.draw_fills(world, rng), "seed": rng.randrange(1 << 30)}
        if op == "rot90":
            st["n"] = [rng.randrange(5, 13)] * 3 if rng.chance(0.6) else [rng.randrange(5, 11) for _ in range(3)]
            if len(set(st["n"])) > 1:
                st["n"] = [st["n"][0]] * 3  # right-angle rotations of a non-cubic box leave the box
            st["via"] = rng.pick(["array", "array", "em", "mrc"])
            st["api"] = rng.pick(["angles", "rotation"])
            st["reuse"] = st["via"] == "array" and rng.chance(0.4)
        elif op == "rot_blob":
            st["n"] = rng.pick([16, 20, 21, 24])
            st["ang"] = pose.random_rotation_angles(rng)
            st["off"] = [rng.randrange(-4, 5) for _ in range(3)]
            st["sigma"] = rng.pick([1.6, 2.0, 2.5])
        elif op == "place":
            n = rng.pick([6, 8, 10])
            st["n"] = n
            st["vol"] = [rng.randrange(20, 41) for _ in range(3)]
            k = rng.randrange(1, 21 if rng.chance(0.3) else 6)
            st["parts"] = [{"pos": [rng.randrange(-2, st["vol"][i] + 4) for i in range(3)],
                            "shift": rng.pick([[0.0, 0.0, 0.0], [rng.pick([-1.0, 1.0, 2.0]) for _ in range(3)]]),
                            "ang": rng.pick(CUBE), "object": rng.randrange(1, 9), "cls": rng.randrange(1, 5)} for _ in range(k)]
            st["color"] = rng.pick(["object_id", "class"])
            st["via"] = rng.pick(["array", "array", "em", "mrc", "list", "list"])
            if rng.chance(0.5):   # repeated orientations among the particles
                few = [rng.pick(CUBE) for _ in range(2)]
                for q in st["parts"]:
                    q["ang"] = rng.pick(few)
        elif op == "extract":
            st["vol"] = [rng.randrange(6, 25) for _ in range(3)]
            st["box"] = [rng.pick([2, 4, 6, 8, 10]) for _ in range(3)]
            st["coord"] = [rng.randrange(-8, st["vol"][i] + 8) for i in range(3)]
            st["dtype"] = rng.pick(["float64", "float32", "int16", "int8", "uint8"])
        elif op == "croppad":
            st["vol"] = [rng.randrange(6, 21) for _ in range(3)]
            st["crop"] = [rng.pick([2, 4, 6]) for _ in range(3)]
            st["pad"] = [st["vol"][i] + rng.randrange(0, 9) for i in range(3)]
            st["fill_value"] = rng.pick([None, 0.0, -3.5])
        else:
            st["n"] = rng.pick([16, 20, 24, 25])
            st["fold"] = rng.randrange(2, 13)
            st["as"] = rng.pick(["int", "str", "str_lower"])
            st["off"] = [rng.randrange(-4, 5), rng.randrange(-4, 5), rng.randrange(-3, 4)]
            st["sigma"] = rng.pick([1.8, 2.2])
        if st.get("via") in ("em", "mrc"):
            st["io"] = True
            st["hint"] = {"read": 3, "any": 5}
        return st

    # ------------------------------------------------------------------ helpers
    def twice(self, world, step, fn, faults=()):
        """run fn under both allocator fills; return the two outcomes"""
        outs = []
        for i, fill in enumerate(step["fills"]):
            PROXY.fill = fill
            before = dict(PROXY.calls)
            out = world.call(step["sess"], fn, faults=faults if i == 0 else ())
            n = sum(PROXY.calls.values()) - sum(before.values())
            if fill != "zero" and n:
                world.fs.fired["alloc_" + fill] += n
            outs.append(out)
        PROXY.fill = "zero"
        return outs

    def fill_independent(self, world, step, a, b, what):
        world.oracle()
        a, b = np.asarray(a), np.asarray(b)
        if a.shape != b.shape or not np.array_equal(a, b, equal_nan=True):
            raise Violation("fill_dependence", "%s" % step["op"], "%s: the result depends on what np.empty returned (%s vs %s): max difference %r" % (
                what, step["fills"][0], step["fills"][1],
                float(np.nanmax(np.abs(a.astype(float) - b.astype(float)))) if a.shape == b.shape else "shape"))
        if np.isnan(a).any():
            raise Violation("fill_dependence", "%s:nan" % step["op"], "%s: the result contains NaN from an uninitialised buffer" % what)

    def int_volume(self, seed, shape):
        g = np.random.Generator(np.random.PCG64(seed))
        return g.integers(1, 200, size=shape).astype(np.float64)

    def put_file(self, world, step, arr):
        via = step["via"]
        p = self.abspath(world, PATHS[0] if via == "em" else PATHS[2])
        a32 = arr.astype(np.float32)
        world.fs.put(p, emmodel.build(a32) if via == "em" else mrcmodel.build(a32))
        world.mfs[p] = ("known", {"kind": "map"})
        return (PATHS[0] if via == "em" else PATHS[2]), p

    def apply(self, world, step):
        fn = getattr(self, "op_" + step["op"], None)
        if fn is None:
            raise Skip()
        return fn(world, step)

    # ------------------------------------------------------------------ operations
    def op_rot90(self, world, step):
        from scipy.spatial.transform import Rotation as sci_rot
        vol = self.int_volume(step["seed"], tuple(step["n"]))
        arg, targets = vol, []
        if step["via"] != "array":
            arg, p = self.put_file(world, step, vol)
            targets = [p]
        N = vol.shape[0]
        c = N // 2
        idx = np.arange(1, N - 1)
        gx, gy, gz = np.meshgrid(idx, idx, idx, indexing="ij")
        src = np.stack([gx.ravel(), gy.ravel(), gz.ravel()], axis=1)

        content = vol.copy()
        earlier = self.int_volume(step["seed"] + 1, tuple(step["n"]))

        def run():
            res = []
            if step.get("reuse"):
                # the caller's buffer held another map when it was rotated before, and was refilled in place since
                vol[...] = earlier
                cryomap.rotate(vol, rotation_angles=list(CUBE[step["seed"] % len(CUBE)]))
                vol[...] = content
            for ang in CUBE:
                if step["api"] == "angles":
                    res.append(cryomap.rotate(arg, rotation_angles=list(ang)))
                else:
                    # the same orientation handed over as a Rotation object, as place_object does
                    res.append(cryomap.rotate(arg, rotation=sci_rot.from_matrix(pose.R_particle(*ang)), transpose_rotation=True))
            return res

        o1, o2 = self.twice(world, step, run, faults=step.get("faults", ()))
        if not (outcome_ack(o1) and o2.ok):
            if o1.faulted or o2.faulted:
                return targets
            bad = o1 if not o1.ok else o2
            raise Violation("op_raised", "rotate:%s" % bad.describe(), "rotate raised %r\n%s" % (bad.exc, bad.tb))
        for k, ang in enumerate(CUBE):
            self.fill_independent(world, step, o1.value[k], o2.value[k], "rotate(%r)" % (ang,))
            R = np.rint(pose.R_particle(*ang)).astype(int)
            dst = (src - c) @ R.T + c
            ok = np.all((dst >= 1) & (dst <= N - 2), axis=1)
            got = o1.value[k][dst[ok, 0], dst[ok, 1], dst[ok, 2]]
            want = vol[src[ok, 0], src[ok, 1], src[ok, 2]]
            world.oracle()
            bad = np.abs(got - want) > 1e-6 * 200
            if bad.any():
                i = int(np.argmax(bad))
                raise Violation("rotation_convention", "cube_rotation", "rotate(zxz %r) of a %d^3 box: voxel at offset %r should move to offset %r (value %r) but that voxel holds %r (%d of %d interior voxels wrong)" % (
                    tuple(ang), N, (src[ok][i] - c).tolist(), (dst[ok][i] - c).tolist(), float(want[i]), float(got[i]), int(bad.sum()), int(ok.sum())))
        world.stats["acks"] += 1
        world.probes["cube_rotations_checked"] += 24
        if step.get("reuse"):
            world.probes["buffer_refilled_in_place_between_calls"] += 1
        return targets

    def op_rot_blob(self, world, step):
        n = step["n"]
        c = n // 2
        off = np.array(step["off"], dtype=float)
        vol = gauss_blob((n, n, n), c + off, step["sigma"])
        R = pose.R_particle(*step["ang"])
        Rinv_ang = [-step["ang"][2], -step["ang"][1], -step["ang"][0]]  # zxz(-psi, -theta, -phi) is the inverse

        def run():
            r1 = cryomap.rotate(vol, rotation_angles=list(step["ang"]))
            r2 = cryomap.rotate(r1, rotation_angles=Rinv_ang)
            return r1, r2

        o1, o2 = self.twice(world, step, run)
        for o in (o1, o2):
            if not o.ok:
                raise Violation("op_raised", "rotate:%s" % o.describe(), "rotate raised %r\n%s" % (o.exc, o.tb))
        self.fill_independent(world, step, o1.value[0], o2.value[0], "rotate(%r)" % (step["ang"],))
        self.fill_independent(world, step, o1.value[1], o2.value[1], "rotate back")
        world.oracle()
        r1, r2 = o1.value
        want = R @ off
        if np.all(np.abs(want) < c - 3 * step["sigma"] - 1):
            g = np.indices(r1.shape).astype(float)
            m = r1.sum()
            com = np.array([(g[i] * r1).sum() / m for i in range(3)]) - c
            if np.max(np.abs(com - want)) > 0.15:
                raise Violation("rotation_convention", "blob_moves_to_Rv", "rotate(zxz %r): density at offset %r ended at offset %r, R.v is %r" % (
                    tuple(step["ang"]), off.tolist(), np.round(com, 2).tolist(), np.round(want, 2).tolist()))
            err = float(np.max(np.abs(r2 - vol)))
            if err > 0.05:
                raise Violation("rotation_inverse", "inverse_restores", "rotating by zxz %r and back changed a smooth blob by %.3f (max)" % (tuple(step["ang"]), err))
            world.probes["blob_inside_box"] += 1
        world.stats["acks"] += 1
        return []

    def op_place(self, world, step):
        n = step["n"]
        c = n // 2
        g = np.random.Generator(np.random.PCG64(step["seed"]))
        parts = step["parts"]

        def make_template():
            t = np.zeros((n, n, n))
            # an asymmetric blob of voxels at least one voxel away from every face
            for _ in range(12):
                t[tuple(g.integers(1, n - 1, size=3))] = 1.0
            t[c + 1, c, c] = 1.0
            t[c + 2, c, c] = 1.0
            t[c, c + 1, c] = 1.0
            return t

        tmpl = make_template()
        templates = [tmpl] * len(parts)
        arg, targets = tmpl, []
        if step["via"] == "list":
            templates = [make_template() for _ in parts]   # one template per particle
            arg = list(templates)
            world.probes["template_list"] += 1
        elif step["via"] != "array":
            arg, p = self.put_file(world, step, tmpl)
            targets = [p]
        parts = step["parts"]
        mat = np.zeros((len(parts), 20))
        for i, p in enumerate(parts):
            for k, ax in enumerate("xyz"):
                mat[i, IDX[ax]] = p["pos"][k] - p["shift"][k]
                mat[i, IDX["shift_" + ax]] = p["shift"][k]
            mat[i, IDX["phi"]], mat[i, IDX["theta"]], mat[i, IDX["psi"]] = p["ang"]
            mat[i, IDX["object_id"]] = p["object"]
            mat[i, IDX["class"]] = p["cls"]
            mat[i, IDX["subtomo_id"]] = i + 1
            mat[i, IDX["tomo_id"]] = 1
        motl = cryomotl.Motl(pd.DataFrame(mat, columns=MOTL_COLS))
        shape = tuple(step["vol"])

        def run():
            return cryomap.place_object(arg, motl, volume_shape=shape, feature_to_color=step["color"])

        o1, o2 = self.twice(world, step, run, faults=step.get("faults", ()))
        if not (outcome_ack(o1) and o2.ok):
            if o1.faulted or o2.faulted:
                return targets
            bad = o1 if not o1.ok else o2
            raise Violation("op_raised", "place_object:%s" % bad.describe(), "place_object raised %r\n%s" % (bad.exc, bad.tb))
        self.fill_independent(world, step, o1.value, o2.value, "place_object")
        # model: stamp the rotated template at position-1 (1-based -> 0-based), later particles on top
        world.oracle()
        want = np.zeros(shape)
        for p, tp in zip(parts, templates):
            offs = np.argwhere(tp > 0.5) - c
            R = np.rint(pose.R_particle(*p["ang"])).astype(int)
            colour = float(p["object"] if step["color"] == "object_id" else p["cls"])
            centre = np.array(p["pos"]) - 1
            for v in offs:
                w = R @ v
                j = w + c                      # index inside the rotated template box
                if np.any(j < 0) or np.any(j >= n):
                    continue
                # the box centre floor(n/2) sits on the particle position: index j of the box is volume voxel centre - n/2 + j
                q = np.floor(centre - n / 2.0).astype(int) + j
                if np.all(q >= 0) and np.all(q < np.array(shape)):
                    want[tuple(q)] = colour
        got = o1.value
        if got.shape != want.shape or not np.array_equal(got, want):
            d = np.argwhere(got != want) if got.shape == want.shape else []
            raise Violation("placement", "stamp", "place_object: %d voxels differ from the stamped model, e.g. voxel %r is %r, expected %r (particle poses %r)" % (
                len(d), d[0].tolist() if len(d) else None, float(got[tuple(d[0])]) if len(d) else None,
                float(want[tuple(d[0])]) if len(d) else None, [(q["pos"], q["ang"]) for q in parts[:3]]))
        world.stats["acks"] += 1
        world.probes["placed_particles"] += len(parts)
        return targets

    def window_model(self, vol, coord, box):
        start = np.floor(np.array(coord, dtype=float) - np.array(box) / 2.0).astype(int)
        out = np.full(tuple(box), vol.mean())
        kinds = []
        for i in range(box[0]):
            for j in range(box[1]):
                for k in range(box[2]):
                    q = start + (i, j, k)
                    if np.all(q >= 0) and np.all(q < np.array(vol.shape)):
                        out[i, j, k] = vol[tuple(q)]
        inside = np.all(start >= 0) and np.all(start + np.array(box) <= np.array(vol.shape))
        outside = np.any(start + np.array(box) <= 0) or np.any(start >= np.array(vol.shape))
        return out, ("inside" if inside else ("outside" if outside else "partial"))

    def op_extract(self, world, step):
        vol = self.int_volume(step["seed"], tuple(step["vol"]))
        if step.get("dtype", "float64") != "float64":
            vol = (vol % 100).astype(step["dtype"])   # e.g. an integer-typed tomogram or mask
        coord = np.array(step["coord"])
        box = tuple(step["box"])

        def mutate(v):
            if v.dtype.kind == "u":
                v[...] = 255 - v
            elif v.dtype.kind == "i":
                np.negative(v, out=v)
                v += 3
            else:
                v *= -1.0
                v += 3.5

        def run():
            v = vol.copy()            # ONE array object for both extractions
            a = cryomap.extract_subvolume(v, coord, box)
            mutate(v)                 # the caller keeps processing its tomogram in place ...
            b = cryomap.extract_subvolume(v, coord, box)   # ... and extracts again
            return a, b, v

        o1, o2 = self.twice(world, step, run)
        for o in (o1, o2):
            if not o.ok:
                raise Violation("op_raised", "extract_subvolume:%s" % o.describe(), "extract_subvolume(%r, %r) of a %r volume raised %r\n%s" % (
                    coord.tolist(), box, vol.shape, o.exc, o.tb))
        self.fill_independent(world, step, o1.value[0], o2.value[0], "extract_subvolume")
        self.fill_independent(world, step, o1.value[1], o2.value[1], "extract_subvolume (second call)")
        world.oracle()
        atol = 1e-9 if vol.dtype != np.float32 else 1e-3
        for which, got, src in (("first", o1.value[0], vol), ("second, after an in-place edit of the same array", o1.value[1], o1.value[2])):
            want, kind = self.window_model(np.asarray(src).astype(np.float64), coord, box)
            if which == "first":
                world.probes["window_" + kind] += 1
            # (the mean of a float32 volume is itself computed in single precision)
            if got.shape != want.shape or not np.allclose(got, want, rtol=0, atol=atol):
                raise Violation("window", "extract:%s%s" % (kind, "" if which == "first" else ":second_call"),
                                "extract_subvolume(centre %r, box %r) of a %r %s volume (%s call) is not the requested window with mean fill (%s window)" % (
                                    coord.tolist(), box, vol.shape, vol.dtype, which, kind))
        world.stats["acks"] += 1
        return []

    def op_croppad(self, world, step):
        vol = self.int_volume(step["seed"], tuple(step["vol"]))
        crop_size = [min(c, v) for c, v in zip(step["crop"], step["vol"])]

        def run():
            a = cryomap.crop(vol.copy(), tuple(crop_size))
            b = cryomap.pad(vol.copy(), tuple(step["pad"]), fill_value=step["fill_value"])
            return a, b

        o1, o2 = self.twice(world, step, run)
        for o in (o1, o2):
            if not o.ok:
                raise Violation("op_raised", "croppad:%s" % o.describe(), "crop/pad raised %r\n%s" % (o.exc, o.tb))
        self.fill_independent(world, step, o1.value[0], o2.value[0], "crop")
        self.fill_independent(world, step, o1.value[1], o2.value[1], "pad")
        world.oracle()
        cr, pd_ = o1.value
        centre = np.array(vol.shape) // 2
        want, _ = self.window_model(vol, centre, crop_size)
        if cr.shape != want.shape or not np.array_equal(cr, want):
            raise Violation("window", "crop", "crop(%r) of a %r volume is not the central window" % (crop_size, vol.shape))
        if pd_.shape != tuple(step["pad"]):
            raise Violation("window", "pad_shape", "pad to %r returned shape %r" % (step["pad"], pd_.shape))
        fillv = vol.mean() if step["fill_value"] is None else step["fill_value"]
        ok = False
        for starts in itertools.product(*[{(p - v) // 2, -((p - v) // -2)} for p, v in zip(step["pad"], vol.shape)]):
            w = np.full(tuple(step["pad"]), fillv)
            w[starts[0]:starts[0] + vol.shape[0], starts[1]:starts[1] + vol.shape[1], starts[2]:starts[2] + vol.shape[2]] = vol
            if np.allclose(pd_, w, rtol=0, atol=1e-9):
                ok = True
        if not ok:
            raise Violation("window", "pad", "pad(%r -> %r, fill %r) does not hold the volume centred in the fill value" % (vol.shape, step["pad"], step["fill_value"]))
        world.stats["acks"] += 1
        return []

    def op_symmetrize(self, world, step):
        n = step["n"]
        c = n // 2
        off = np.array(step["off"], dtype=float)
        vol = gauss_blob((n, n, n), c + off, step["sigma"]) + 0.5 * gauss_blob((n, n, n), c + np.array([off[1], -off[0], 1.0]) * 0.5, step["sigma"])
        fold = step["fold"]
        sym = fold if step["as"] == "int" else ("C%d" % fold if step["as"] == "str" else "c%d" % fold)

        def run():
            return cryomap.symmetrize_volume(vol.copy(), sym)

        o1, o2 = self.twice(world, step, run)
        for o in (o1, o2):
            if not o.ok:
                raise Violation("op_raised", "symmetrize_volume:%s" % o.describe(), "symmetrize_volume(%r) raised %r\n%s" % (sym, o.exc, o.tb))
        self.fill_independent(world, step, o1.value, o2.value, "symmetrize_volume(%r)" % (sym,))
        world.oracle()
        got = np.asarray(o1.value, dtype=float)
        want = np.zeros_like(vol)
        for k in range(fold):
            want += rotate_model(vol, pose.Rz(k * 360.0 / fold))
        want /= fold
        # compared inside the inscribed cylinder, away from the faces: voxels on the faces (and in the corners,
        # which leave the box under rotation) can fall outside the interpolation domain by rounding
        g = np.indices(vol.shape).astype(float)
        cyl = (np.hypot(g[0] - c, g[1] - c) <= c - 2) & (g[2] >= 1) & (g[2] <= n - 2)
        tol = 0.02 * float(vol.max())
        err = float(np.max(np.abs(got - want)[cyl])) if got.shape == want.shape else float("inf")
        if not err <= tol:
            raise Violation("symmetrisation", "mean_of_rotations", "symmetrize_volume(%r): result differs from the mean of the %d copies rotated by multiples of %.4g degrees about z by %.3g (tolerance %.3g)" % (
                sym, fold, 360.0 / fold, err, tol))
        back = rotate_model(got, pose.Rz(360.0 / fold))
        inner = (np.hypot(g[0] - c, g[1] - c) <= c - 3) & (g[2] >= 1) & (g[2] <= n - 2)
        inv = float(np.max(np.abs(back - got)[inner]))
        if not inv <= 0.03 * float(vol.max()):
            raise Violation("symmetrisation", "not_invariant", "symmetrize_volume(%r): rotating the result by %.4g degrees changes it by %.3g" % (sym, 360.0 / fold, inv))
        r = np.hypot(*(off[:2]))
        if r + 3 * step["sigma"] + 1 < c - 1:
            if abs(got.sum() - vol.sum()) > 0.01 * vol.sum():
                raise Violation("symmetrisation", "total_density", "symmetrize_volume(%r): total density %.6g, input %.6g" % (sym, got.sum(), vol.sum()))
            world.probes["density_conserved_checked"] += 1
        world.stats["acks"] += 1
        world.probes["fold_%d" % fold] += 1
        return []

    # ------------------------------------------------------------------ shrinking
    def shrink_step(self, step):
        if step.get("fills") and step["fills"] != ["zero", "huge"]:
            yield dict(step, fills=["zero", "huge"])
        if step.get("parts") and len(step["parts"]) > 1:
            n = len(step["parts"])
            yield dict(step, parts=step["parts"][: n // 2])
            yield dict(step, parts=step["parts"][n // 2:])
            yield dict(step, parts=step["parts"][:-1])
        if step.get("parts"):
            for i, p in enumerate(step["parts"]):
                if p["ang"] != [0.0, 0.0, 0.0]:
                    yield dict(step, parts=step["parts"][:i] + [dict(p, ang=[0.0, 0.0, 0.0])] + step["parts"][i + 1:])
                if p["shift"] != [0.0, 0.0, 0.0]:
                    yield dict(step, parts=step["parts"][:i] + [dict(p, shift=[0.0, 0.0, 0.0])] + step["parts"][i + 1:])
        if step.get("via") in ("em", "mrc", "list"):
            yield dict(step, via="array")
        if step.get("fold") and step["fold"] > 2:
            yield dict(step, fold=2)
            yield dict(step, fold=step["fold"] - 1)
        if step.get("as") in ("str", "str_lower"):
            yield dict(step, **{"as": "int"})

"""C11 - map files round-trip voxels and axis order across MRC, REC and EM.

Sessions write arrays to a tiny shared namespace of .mrc/.rec/.em paths, read them back (after
restarts), convert between formats with default and explicit output names, with and without
permission to overwrite; a foreign actor (the independent format models) drops valid MRC/EM files
"from other software" and garbage; disk faults and crashes are armed inside the calls.
Oracle: independent MRC/EM byte parsers on the durable bytes; array model for reads/conversions.
"""
import numpy as np

from ..core import Property, Violation, Skip, outcome_ack, digest_array, ROOT
from ..gen import gen_array_recipe, array_from_recipe
from ..models import em as emmodel, mrc as mrcmodel

from cryocat import cryomap

# a deliberately tiny namespace (collisions, stale files, default-name derivation hitting existing files); the
# base names end in letters that also occur in the extensions (volume.em, tomogram.mrc, avg_c.mrc, ...)
PATHS = [ROOT + "/work/a.mrc", ROOT + "/work/a.em", ROOT + "/work/b.rec", ROOT + "/work/b.mrc", ROOT + "/data/a.em",
         ROOT + "/data/a.mrc", "rel.mrc", "rel.em", ROOT + "/work/volume.em", ROOT + "/work/volume.mrc",
         ROOT + "/work/tomogram.mrc", ROOT + "/work/tomogram.em", "avg_c.mrc", "ribosome.em"]
DTYPES = ["float32", "float64", "int16", "int8"]
EM_CODE = {"int8": 1, "int16": 2, "int32": 4, "float32": 5, "float64": 9}
MRC_MODE = {"int8": 0, "int16": 1, "float32": 2}


def fmt_of(path):
    return "em" if path.endswith(".em") else "mrc"


def disk_array(arr_xyz):
    """dtype narrowing the statement prescribes: float64 -> float32, everything else as is"""
    a = np.asarray(arr_xyz)
    return a.astype(np.float32) if a.dtype == np.float64 else a


def parse_file(path, data):
    return emmodel.parse(data) if fmt_of(path) == "em" else mrcmodel.parse(data)


class C11(Property):
    ID = "C11"
    SESSIONS = ["s0", "s1"]
    RUNS = {"quick": (6000, 6000), "thorough": (150000, 150000)}
    MUST_REACH = {"probes": ["overwrite_shorter", "refused_overwrite", "default_output_name", "foreign_valid_file", "foreign_ext_header", "recovery_after_fault", "stale_target"], "faults": ["crash", "enospc", "eio_write", "eio_read", "short_write", "short_read", "eintr", "open_fail", "emfile_budget"]}

    def config(self, rng, tier, faulty):
        big = 48 if tier == "thorough" else 24
        cfg = {
            "max_steps": rng.pick([5, 8, 12]),
            "max_dim": rng.pick([2, 5, 9, 9, big]),
            "env_rate": rng.pick([0.1, 0.2, 0.3]),
            "env_kinds": ["env.restart", "env.restart", "env.foreign_put", "env.cwd"],
            "fault_rate": 0.0, "fault_kinds": [],
            "nsymbt": rng.chance(0.3),
        }
        if faulty:
            kinds = ["enospc", "eio_write", "eio_read", "short_write", "short_read", "eintr", "crash", "open_fail",
                     "toctou"]
            rng.shuffle(kinds)
            cfg["fault_kinds"] = sorted(kinds[: rng.randrange(1, len(kinds) + 1)])
            cfg["fault_rate"] = rng.pick([0.3, 0.5, 0.7])
            cfg["env_kinds"] = cfg["env_kinds"] + rng.pick([[], ["env.capacity", "env.heal"],
                                                            ["env.handle_budget", "env.heal"],
                                                            ["env.readonly", "env.heal"], ["env.foreign_delete"]])
        return cfg

    def init(self, world):
        world.fs.mkdir_raw(ROOT + "/data")
        world.fs.mkdir_raw(ROOT + "/elsewhere")

    def paths(self, world):
        return [self.abspath(world, p) for p in PATHS]

    # ------------------------------------------------------------------ generation
    def gen_shape(self, rng, cfg):
        m = cfg["max_dim"]
        return [rng.randrange(1, m + 1) for _ in range(3)]

    def gen_step(self, world, rng):
        sess = rng.pick(self.SESSIONS)
        cfg = world.cfg
        op = rng.weighted([("write", 5), ("read", 4), ("em2mrc", 2), ("mrc2em", 2), ("foreign_map", 2)])
        if op == "write":
            dt = rng.pick(DTYPES)
            return {"op": "write", "sess": sess, "path": rng.pick(PATHS),
                    "arr": gen_array_recipe(rng, self.gen_shape(rng, cfg), dt),
                    "transpose": rng.chance(0.75),
                    "data_type": rng.pick([None, None, None, "float32", "int16", "float64"]),
                    "overwrite": rng.chance(0.8), "io": True, "hint": {"write": 3, "stat": 4, "any": 10}}
        if op == "read":
            return {"op": "read", "sess": sess, "path": rng.pick(PATHS), "transpose": rng.chance(0.75),
                    "data_type": rng.pick([None, None, None, "float32", "float64"]), "io": True,
                    "hint": {"read": 4, "stat": 2, "any": 8}}
        if op in ("em2mrc", "mrc2em"):
            src_ext, dst_ext = (".em", ".mrc") if op == "em2mrc" else (".mrc", ".em")
            srcs = [p for p in PATHS if p.endswith(src_ext)]
            dsts = [p for p in PATHS if p.endswith(dst_ext)]
            return {"op": op, "sess": sess, "src": rng.pick(srcs), "invert": rng.chance(0.5),
                    "overwrite": rng.chance(0.6), "out": rng.pick([None, None] + dsts), "io": True,
                    "hint": {"read": 4, "write": 3, "stat": 4, "any": 14}}
        dt = rng.pick(["float32", "int16", "int8"])
        return {"op": "foreign_map", "path": rng.pick(PATHS), "arr": gen_array_recipe(rng, self.gen_shape(rng, cfg), dt),
                "nsymbt": rng.pick([0, 0, 80, 1024]) if cfg["nsymbt"] else 0}

    def gen_recovery(self, world, rng):
        steps = []
        for p in sorted(world.pending_recovery):
            if not (p.endswith(".em") or p.endswith(".mrc") or p.endswith(".rec")):
                continue
            steps.append({"op": "write", "sess": "s0", "path": p, "arr": gen_array_recipe(rng, [rng.randrange(1, 6) for _ in range(3)], "float32"),
                          "transpose": True, "data_type": None, "overwrite": True})
            steps.append({"op": "read", "sess": "s0", "path": p, "transpose": True, "data_type": None})
        return steps

    # ------------------------------------------------------------------ execution + oracle
    def apply(self, world, step):
        op = step["op"]
        if op == "foreign_map":
            path = self.abspath(world, step["path"])
            arr = array_from_recipe(step["arr"])
            if fmt_of(path) == "em":
                data = emmodel.build(arr)
            else:
                data = mrcmodel.build(arr, nsymbt=step.get("nsymbt", 0))
                if step.get("nsymbt"):
                    world.probes["foreign_ext_header"] += 1
            world.fs.put(path, data)
            world.mfs[path] = ("known", arr)
            world.pending_recovery.pop(path, None)
            world.probes["foreign_valid_file"] += 1
            return [path]
        if op == "write":
            return self.do_write(world, step)
        if op == "read":
            return self.do_read(world, step)
        if op in ("em2mrc", "mrc2em"):
            return self.do_convert(world, step)
        raise Skip()

    def do_write(self, world, step):
        path = self.abspath(world, step["path"])
        arr = array_from_recipe(step["arr"])
        dtn = step.get("data_type")
        kw = {"transpose": step["transpose"], "overwrite": step["overwrite"]}
        if dtn:
            kw["data_type"] = np.dtype(dtn).type
        src = arr.copy()
        before = world.fs.get(path)
        out = world.call(step["sess"], cryomap.write, src, step["path"], faults=step.get("faults", ()), **kw)
        world.note("write %s %s -> %s" % (step["arr"]["shape"], step["arr"]["dtype"], out.describe()))
        eff = arr.astype(dtn) if dtn else arr
        file_arr = eff if step["transpose"] else eff.transpose(2, 1, 0)   # what the file holds, indexed [x,y,z]
        exp = disk_array(file_arr)
        if outcome_ack(out):
            world.ack(path, exp)
            self.check_bytes(world, path, exp, "after write(transpose=%s, data_type=%s)" % (step["transpose"], dtn))
            if before is not None and len(before) > len(world.fs.get(path)):
                world.probes["overwrite_shorter"] += 1
            if not (src == arr).all():
                world.probes["source_array_mutated"] += 1
        elif out.faulted:
            world.indeterminate(path)
        elif before is not None and not step["overwrite"]:
            world.probes["refused_overwrite"] += 1
            world.oracle()
            if world.fs.get(path) != before:
                raise Violation("refusal_damaged_target", "write:refusal",
                                "write(overwrite=False) raised %r but the existing %s changed" % (out.exc, path))
        else:
            raise Violation("write_raised", "write:%s" % out.describe(),
                            "fault-free write of %r %s to %s raised %r\n%s" % (
                                step["arr"]["shape"], step["arr"]["dtype"], path, out.exc, out.tb))
        return [path]

    def check_bytes(self, world, path, exp, when):
        world.oracle()
        data = world.fs.get(path)
        if data is None:
            raise Violation("file_missing", "write:no_file", "%s: %s does not exist" % (when, path))
        try:
            f = parse_file(path, data)
        except (emmodel.EmFormatError, mrcmodel.MrcFormatError) as e:
            raise Violation("file_invalid", "write:invalid_%s" % fmt_of(path),
                            "%s: %s is not a valid %s file: %s" % (when, path, fmt_of(path), e))
        if tuple(f["dims"]) != tuple(exp.shape):
            raise Violation("header_dims", "write:dims", "%s: header (nx,ny,nz)=%r but the array is %r (x,y,z)" % (
                when, f["dims"], exp.shape))
        want = EM_CODE[str(exp.dtype)] if fmt_of(path) == "em" else MRC_MODE[str(exp.dtype)]
        got = f["code"] if fmt_of(path) == "em" else f["mode"]
        if got != want:
            raise Violation("header_dtype", "write:dtype", "%s: on-disk type code %r for %s data, expected %r" % (
                when, got, exp.dtype, want))
        self.compare(f["array"], exp, "%s: voxels of %s" % (when, path), "file_values")

    def compare(self, got, exp, what, clause):
        got = np.asarray(got)
        exp = np.asarray(exp)
        if got.shape != exp.shape:
            sig = "shape"
            if got.shape == exp.shape[::-1]:
                sig = "shape_reversed"
            raise Violation(clause, sig, "%s: shape %r, expected %r" % (what, got.shape, exp.shape))
        g = got.astype(np.float64)
        e = exp.astype(np.float64)
        bad = ~(g == e)
        if bad.any():
            i = tuple(np.argwhere(bad)[0])
            sig = "values"
            if g.shape == e.shape and (g == -e).all():
                sig = "negated"
            raise Violation(clause, sig, "%s: voxel %r is %r, expected %r (%d differ)" % (
                what, i, g[i], e[i], int(bad.sum())))

    def do_read(self, world, step):
        path = self.abspath(world, step["path"])
        dtn = step.get("data_type")
        kw = {"transpose": step["transpose"]}
        if dtn:
            kw["data_type"] = np.dtype(dtn).type
        exp = world.known(path)
        out = world.call(step["sess"], cryomap.read, step["path"], faults=step.get("faults", ()), **kw)
        world.note("read -> %s" % out.describe())
        if outcome_ack(out):
            if exp is not None:
                world.oracle()
                world.stats["judged_reads"] += 1
                want = exp if step["transpose"] else exp.transpose(2, 1, 0)
                if dtn:
                    want = want.astype(dtn)
                self.compare(out.value, want, "read(%s, transpose=%s, data_type=%s)" % (path, step["transpose"], dtn),
                             "read_values")
                if dtn and out.value.dtype != np.dtype(dtn):
                    world.probes["read_dtype_differs_from_request"] += 1   # not part of the statement: counted, not judged
                world.note(digest_array(out.value))
        elif not out.faulted and exp is not None:
            raise Violation("read_raised", "read:%s" % out.describe(),
                            "fault-free read of %s (acknowledged content %r %s) raised %r\n%s" % (
                                path, exp.shape, exp.dtype, out.exc, out.tb))
        return []

    def do_convert(self, world, step):
        op = step["op"]
        src = self.abspath(world, step["src"])
        if step["out"] is None:
            dst = src[:-3] + ".mrc" if op == "em2mrc" else src[:-4] + ".em"
        else:
            dst = self.abspath(world, step["out"])
        fn = cryomap.em2mrc if op == "em2mrc" else cryomap.mrc2em
        kw = {"invert": step["invert"], "overwrite": step["overwrite"]}
        if step["out"] is not None:
            kw["output_name"] = step["out"]
        before = world.fs.get(dst)
        exp_src = world.known(src)
        out = world.call(step["sess"], fn, step["src"], faults=step.get("faults", ()), **kw)
        world.note("%s invert=%s ow=%s -> %s" % (op, step["invert"], step["overwrite"], out.describe()))
        if step["out"] is None:
            world.probes["default_output_name"] += 1
        must_refuse = before is not None and not step["overwrite"]
        if outcome_ack(out):
            if must_refuse:
                raise Violation("overwrite_not_refused", "%s:no_refusal" % op,
                                "%s(overwrite=False) returned normally although %s existed" % (op, dst))
            if exp_src is not None:
                exp = disk_array(-exp_src if step["invert"] else exp_src)
                world.ack(dst, exp)
                self.check_bytes(world, dst, exp, "after %s(invert=%s)" % (op, step["invert"]))
                world.stats["judged_conversions"] += 1
            else:
                world.indeterminate(dst)  # converted from a file of unknown content: nothing to compare with
                world.pending_recovery.pop(dst, None)
        elif out.faulted:
            world.indeterminate(dst)
        else:
            world.oracle()
            if must_refuse:
                # told not to overwrite: the refusal must leave the existing file as it was
                if world.fs.get(dst) != before:
                    raise Violation("refusal_damaged_target", "%s:refusal" % op,
                                    "%s(overwrite=False) raised %r but the existing %s changed" % (op, out.exc, dst))
                world.probes["refused_overwrite"] += 1
            elif exp_src is not None:
                raise Violation("convert_raised", "%s:%s" % (op, out.describe()),
                                "fault-free %s of %s (acknowledged content) raised %r\n%s" % (op, src, out.exc, out.tb))
            else:
                # a source of unknown content (foreign bytes, a torn file) may make the conversion fail half-way,
                # after the output was opened: nothing is stated about that, the output is simply in doubt
                world.indeterminate(dst)
                world.probes["conversion_of_unknown_source_failed"] += 1
        return [dst]

    # ------------------------------------------------------------------ shrinking
    def shrink_step(self, step):
        if "arr" in step:
            r = step["arr"]
            sh = r["shape"]
            for i in range(3):
                if sh[i] > 1:
                    s2 = list(sh)
                    s2[i] = max(1, sh[i] // 2)
                    yield dict(step, arr=dict(r, shape=s2))
                    s3 = list(sh)
                    s3[i] = sh[i] - 1
                    yield dict(step, arr=dict(r, shape=s3))
            if r["kind"] != "ramp":
                yield dict(step, arr=dict(r, kind="ramp", seed=0))
            if r["dtype"] != "float32":
                yield dict(step, arr=dict(r, dtype="float32"))
        if step.get("data_type"):
            yield dict(step, data_type=None)
        if step.get("transpose") is False:
            yield dict(step, transpose=True)
        if step.get("invert"):
            yield dict(step, invert=False)
        if step.get("nsymbt"):
            yield dict(step, nsymbt=0)

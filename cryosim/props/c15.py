"""C15 - tilt-stack operations are lossless selections/permutations of tilt images.

A foreign "acquisition" actor drops MRC tilt stacks and tilt/index text files into a shared
namespace; sessions run sort / remove / split / flip / crop / bin on stacks given as arrays (xyz or
zyx order) or as files, with the tilts or indices given as arrays, lists or files, with and without
output files, chaining the output file of one operation into the next; faults and crashes are
armed inside the calls.
Oracle: selection/permutation model on the [x, y, tilt] array; independent MRC parser on outputs.
"""
import numpy as np

from ..core import Property, Violation, Skip, outcome_ack, digest_array, ROOT
from ..gen import gen_array_recipe, array_from_recipe
from ..models import mrc as mrcmodel

from cryocat import tiltstack

STACKS = [ROOT + "/work/ts_a.mrc", ROOT + "/work/ts_b.mrc", ROOT + "/data/ts_a.mrc", "ts_rel.mrc"]
OUTS = [ROOT + "/work/out.mrc", ROOT + "/work/ts_b.mrc", "out_rel.mrc"]
PREFIXES = [ROOT + "/work/half", "half_rel"]
TXT = [ROOT + "/work/a.tlt", ROOT + "/work/idx.txt", ROOT + "/data/a.rawtlt"]
OPS = ["sort", "remove", "split", "flip2", "crop", "bin"]


class _Repeated(Exception):
    pass


class C15(Property):
    ID = "C15"
    SESSIONS = ["s0", "s1"]
    RUNS = {"quick": (5000, 4000), "thorough": (100000, 80000)}
    MUST_REACH = {"probes": ["foreign_stack", "single_index_file", "argument_object_reused", "recovery_after_fault"], "faults": ["crash", "enospc", "eio_write", "eio_read", "short_write", "short_read", "eintr", "open_fail"]}

    def config(self, rng, tier, faulty):
        cfg = {
            "max_steps": rng.pick([4, 6, 9]),
            "max_tilts": rng.pick([2, 3, 7, 25]),
            "max_dim": rng.pick([4, 7, 12, 40]),
            "env_rate": rng.pick([0.05, 0.15]),
            "env_kinds": ["env.restart", "env.foreign_put", "env.cwd"],
            "fault_rate": 0.0, "fault_kinds": [],
        }
        if faulty:
            kinds = ["enospc", "eio_write", "eio_read", "short_write", "short_read", "eintr", "crash", "open_fail",
                     "toctou"]
            rng.shuffle(kinds)
            cfg["fault_kinds"] = sorted(kinds[: rng.randrange(1, len(kinds) + 1)])
            cfg["fault_rate"] = rng.pick([0.3, 0.5, 0.7])
            cfg["env_kinds"] = cfg["env_kinds"] + rng.pick([[], ["env.capacity", "env.heal"],
                                                            ["env.handle_budget", "env.heal"], ["env.foreign_delete"]])
        return cfg

    def init(self, world):
        world.fs.mkdir_raw(ROOT + "/data")
        world.fs.mkdir_raw(ROOT + "/elsewhere")

    def paths(self, world):
        return [self.abspath(world, p) for p in STACKS + OUTS]

    # ------------------------------------------------------------------ generation
    def gen_stack_recipe(self, rng, cfg):
        w = rng.randrange(4, max(5, cfg["max_dim"] + 1))
        h = rng.randrange(4, max(5, cfg["max_dim"] + 1))
        n = rng.randrange(2, cfg["max_tilts"] + 1)
        return gen_array_recipe(rng, [w, h, n], rng.pick(["float32", "int16"]), rng.pick(["randn", "ramp", "ints"]))

    def known_stacks(self, world):
        out = []
        for p in STACKS + OUTS + [pre + s for pre in PREFIXES for s in ("_even.mrc", "_odd.mrc")]:
            ap = self.abspath(world, p)
            k = world.known(ap)
            if k is not None and isinstance(k, dict) and k.get("kind") == "stack":
                sh = k["arr"].shape  # only stacks inside the quantifier (>= 2 tilts, images >= 4 px) are re-used
                if sh[2] >= 2 and sh[0] >= 4 and sh[1] >= 4:
                    out.append(p)
        return out

    def gen_tilts(self, rng, n):
        """distinct angles in arbitrary order"""
        step = rng.pick([1.0, 2.0, 3.0, 0.5])
        vals = [round(-step * (n // 2) + step * i + rng.uniform(-0.2, 0.2) * step, rng.pick([0, 1, 2])) for i in range(n)]
        if len(set(vals)) != n:
            vals = [float(i * 3 - n) for i in range(n)]
        rng.shuffle(vals)
        return vals

    def gen_step(self, world, rng):
        sess = rng.pick(self.SESSIONS)
        cfg = world.cfg
        stacks = self.known_stacks(world)
        if not stacks and rng.chance(0.5) or rng.chance(0.15):
            st = {"op": "put_stack", "path": rng.pick(STACKS), "arr": self.gen_stack_recipe(rng, cfg),
                  "nsymbt": rng.pick([0, 0, 0, 160])}
            if stacks and rng.chance(0.5):
                # a new acquisition replaces an existing stack file: same name, same shape and type, other pixels
                st["path"] = rng.pick(stacks)
                old = self.stack_of(world, st["path"])
                st["arr"] = dict(st["arr"], shape=[int(v) for v in old.shape], dtype=str(old.dtype))
                st["nsymbt"] = 0
            return st
        op = rng.pick(OPS)
        if stacks and rng.chance(0.55):
            src = {"kind": "path", "path": rng.pick(stacks)}
            n = self.stack_of(world, src["path"]).shape[2]
            shape = self.stack_of(world, src["path"]).shape
        else:
            r = self.gen_stack_recipe(rng, cfg)
            src = {"kind": "array", "arr": r, "input_order": rng.pick(["xyz", "zyx"])}
            n = r["shape"][2]
            shape = r["shape"]
        step = {"op": op, "sess": sess, "src": src, "output_order": rng.pick(["xyz", "zyx"]),
                "out": rng.pick([None, None] + OUTS), "io": True,
                "hint": {"read": 4 if src["kind"] == "path" else 1, "write": 3, "any": 10}}
        if op == "sort":
            step["tilts"] = self.gen_tilts(rng, n)
            step["tilts_as"] = rng.pick(["array", "list", "file", "file"])
            step["tilt_path"] = rng.pick([TXT[0], TXT[2]])
            step["tilt_fmt"] = rng.pick(["%.2f", "%g", "%8.3f", " %.1f"])
        elif op == "remove":
            k = rng.randrange(1, n)
            idx = rng.sample(range(n), k)
            step["idx"] = idx
            step["from1"] = rng.chance(0.6)
            step["idx_as"] = rng.pick(["array", "list", "file"])
            step["idx_path"] = TXT[1]
            prev = world.model.get("last_remove")
            if prev is not None and max(prev["idx"]) < n and len(prev["idx"]) < n and rng.chance(0.5):
                # the caller keeps its index array around and passes the very same object again
                step.update(idx=list(prev["idx"]), from1=prev["from1"], idx_as="array", reuse=True, sess=prev["sess"])
            world.model["last_remove"] = {"idx": step["idx"], "from1": step["from1"], "sess": step["sess"]}
        elif op == "split":
            step["out"] = rng.pick([None, None] + PREFIXES)
        elif op == "flip2":
            axes = rng.pick([["x"], ["y"], ["z"], ["x", "y"], ["z", "x"], "x", "y"])
            step["axes"] = axes
            step["single_call"] = rng.pick([None, None, ["x", "x"], ["y", "y"], ["z", "z"], ["x", "y", "x", "y"], ["z", "x", "z", "x"]])
            step["via_file"] = rng.chance(0.4)
            step["mid"] = OUTS[0]
        elif op == "crop":
            step["new_width"] = rng.pick([None, rng.randrange(1, shape[0] + 1)])
            step["new_height"] = rng.pick([None, rng.randrange(1, shape[1] + 1)])
        elif op == "bin":
            step["factor"] = rng.pick([1, 2, 2, 3, 4])
        return step

    def gen_recovery(self, world, rng):
        steps = []
        for p in sorted(world.pending_recovery):
            if not p.endswith(".mrc"):
                continue
            r = gen_array_recipe(rng, [5, 4, 3], "float32", "ramp")
            steps.append({"op": "flip2", "sess": "s0", "src": {"kind": "array", "arr": r, "input_order": "xyz"},
                          "output_order": "xyz", "out": p, "axes": ["x"], "via_file": False, "mid": OUTS[0]})
        return steps

    # ------------------------------------------------------------------ helpers
    def stack_of(self, world, p):
        k = world.known(self.abspath(world, p))
        return k["arr"] if k else None

    def put_known(self, world, path, arr_xyz):
        world.ack(path, {"kind": "stack", "arr": np.array(arr_xyz)})

    def check_file(self, world, path, exp, what):
        world.oracle()
        data = world.fs.get(path)
        if data is None:
            raise Violation("file_missing", "out:no_file", "%s: output file %s does not exist" % (what, path))
        try:
            f = mrcmodel.parse(data)
        except mrcmodel.MrcFormatError as e:
            raise Violation("file_invalid", "out:invalid", "%s: %s is not a valid MRC file: %s" % (what, path, e))
        self.cmp(f["array"], exp, "%s: file %s" % (what, path), "file_values")
        if np.dtype(mrcmodel.MODES[f["mode"]]) != exp.dtype:
            world.probes["output_file_mode_differs"] += 1   # the file holds the result (values compared above); its mode is not stated

    def cmp(self, got, exp, what, clause, tol=0.0):
        got = np.asarray(got)
        exp = np.asarray(exp)
        if got.shape != exp.shape:
            sig = "shape_reversed" if got.shape == exp.shape[::-1] else "shape"
            raise Violation(clause, sig, "%s: shape %r, expected %r" % (what, got.shape, exp.shape))
        g = got.astype(np.float64)
        e = exp.astype(np.float64)
        bad = ~(np.abs(g - e) <= tol)
        if bad.any():
            i = tuple(int(v) for v in np.argwhere(bad)[0])
            raise Violation(clause, "values", "%s: element %r is %r, expected %r (%d differ)" % (what, i, g[i], e[i], int(bad.sum())))

    # ------------------------------------------------------------------ execution
    def apply(self, world, step):
        op = step["op"]
        if op == "put_stack":
            path = self.abspath(world, step["path"])
            arr = array_from_recipe(step["arr"])
            world.fs.put(path, mrcmodel.build(arr, nsymbt=step.get("nsymbt", 0)))
            world.mfs[path] = ("known", {"kind": "stack", "arr": arr})
            world.pending_recovery.pop(path, None)
            world.probes["foreign_stack"] += 1
            return [path]
        if op not in OPS:
            raise Skip()
        return self.run_op(world, step)

    def resolve_src(self, world, step):
        src = step["src"]
        if src["kind"] == "path":
            A = self.stack_of(world, src["path"])
            if A is None:
                raise Skip()
            return A, src["path"], {}
        A = array_from_recipe(src["arr"])
        arg = A if src["input_order"] == "xyz" else np.ascontiguousarray(A.transpose(2, 1, 0))
        return A, arg, {"input_order": src["input_order"]}

    def run_op(self, world, step):
        op = step["op"]
        A, arg, kw = self.resolve_src(world, step)
        n = A.shape[2]
        kw["output_order"] = step["output_order"]
        targets = []
        aux_written = []
        out = step.get("out")
        fs = world.fs

        def prep_text(path, lines):
            ap = self.abspath(world, path)
            fs.put(ap, ("\n".join(lines) + "\n").encode("ascii"))
            world.mfs[ap] = ("known", {"kind": "text"})
            aux_written.append(ap)
            return path

        if op == "sort":
            tilts = step["tilts"]
            if len(tilts) != n:
                raise Skip()
            if step["tilts_as"] == "array":
                targ = np.array(tilts, dtype=float)
            elif step["tilts_as"] == "list":
                targ = list(tilts)
            else:
                targ = prep_text(step["tilt_path"], [step["tilt_fmt"] % t for t in tilts])
                tilts = [float(step["tilt_fmt"] % t) for t in tilts]
                if len(set(tilts)) != n:
                    raise Skip()
            order = sorted(range(n), key=lambda i: tilts[i])
            M = A[:, :, order]
            call = lambda: tiltstack.sort_tilts_by_angle(arg, targ, output_file=out, **kw)
        elif op == "remove":
            idx = [i for i in step["idx"] if i < n]
            if not idx or len(idx) >= n:
                raise Skip()
            given = [i + 1 for i in idx] if step["from1"] else list(idx)
            if step["idx_as"] == "array":
                pool = world.session(step["sess"]).setdefault("_args", {})
                key = "idx:%r:%r" % (given, step["from1"])
                if step.get("reuse") and key in pool:
                    iarg = pool[key]
                    world.probes["argument_object_reused"] += 1
                else:
                    iarg = pool[key] = np.array(given)
            elif step["idx_as"] == "list":
                iarg = list(given)
            else:
                iarg = prep_text(step["idx_path"], ["%d" % i for i in given])
                if len(given) == 1:
                    world.probes["single_index_file"] += 1
            keep = [i for i in range(n) if i not in set(idx)]
            M = A[:, :, keep]
            call = lambda: tiltstack.remove_tilts(arg, iarg, numbered_from_1=step["from1"], output_file=out, **kw)
        elif op == "split":
            M = (A[:, :, 0::2], A[:, :, 1::2])
            call = lambda: tiltstack.split_stack_even_odd(arg, output_file_prefix=out, **kw)
        elif op == "flip2":
            M = A
            mid = step["mid"] if step.get("via_file") else None
            if mid and out and self.abspath(world, mid) == self.abspath(world, out):
                mid = OUTS[2] if self.abspath(world, OUTS[2]) != self.abspath(world, out) else OUTS[1]
            step = dict(step, mid=mid, via_file=bool(mid))

            def call():
                if step.get("single_call"):
                    # the same axis twice within ONE call: a list of axes is applied one after the other
                    once = tiltstack.flip_along_axes(arg, list(step["single_call"]), **dict(kw, output_order="xyz"))
                    if once.shape != A.shape or not (np.asarray(once) == A).all():
                        raise _Repeated(list(step["single_call"]))
                first = tiltstack.flip_along_axes(arg, step["axes"], output_file=mid, **dict(kw, output_order="xyz"))
                second_in = mid if mid else first
                return first, tiltstack.flip_along_axes(second_in, step["axes"], output_file=out, input_order="xyz",
                                                        output_order=step["output_order"])
        elif op == "crop":
            W, H = A.shape[0], A.shape[1]
            nw = step.get("new_width") or W
            nh = step.get("new_height") or H
            if nw > W or nh > H:
                raise Skip()
            M = None
            call = lambda: tiltstack.crop(arg, new_width=step.get("new_width"), new_height=step.get("new_height"),
                                          output_file=out, **kw)
        else:
            f = step["factor"]
            M = None
            call = lambda: tiltstack.bin(arg, f, output_file=out, **kw)

        if out:
            if op == "split":
                targets = [self.abspath(world, out + "_even.mrc"), self.abspath(world, out + "_odd.mrc")]
            else:
                targets = [self.abspath(world, out)]
        if op == "flip2" and step.get("via_file"):
            targets.append(self.abspath(world, step["mid"]))
        res = world.call(step["sess"], call, faults=step.get("faults", ()))
        world.note("%s src=%s out=%s -> %s" % (op, step["src"]["kind"], bool(out), res.describe()))
        if isinstance(res.exc, _Repeated) and not res.faulted:
            raise Violation("flip_involution", "repeated_axis_in_one_call",
                            "flip_along_axes(%r) in a single call is not the identity on a %r stack" % (res.exc.args[0], A.shape))
        if outcome_ack(res):
            val = res.value
            self.judge(world, step, op, A, M, val, targets)
        elif res.faulted:
            for t in targets:
                world.indeterminate(t)
        else:
            raise Violation("op_raised", "%s:%s" % (op, res.describe()),
                            "fault-free %s on a %r %s stack (%s input) raised %r\n%s" % (
                                op, A.shape, A.dtype, step["src"]["kind"], res.exc, res.tb))
        return targets + aux_written

    def to_xyz(self, val, order):
        return val if order == "xyz" else np.asarray(val).transpose(2, 1, 0)

    def judge(self, world, step, op, A, M, val, targets):
        order = step["output_order"]
        what = "%s(%s input, output_order=%s)" % (op, step["src"]["kind"] + ("/" + step["src"].get("input_order", "") if step["src"]["kind"] == "array" else ""), order)
        world.oracle()
        if op == "split":
            even, odd = val
            self.cmp(self.to_xyz(even, order), M[0], what + " even", "result_values")
            self.cmp(self.to_xyz(odd, order), M[1], what + " odd", "result_values")
            inter = np.empty_like(A)
            inter[:, :, 0::2] = self.to_xyz(even, order)
            inter[:, :, 1::2] = self.to_xyz(odd, order)
            self.cmp(inter, A, what + " interleaved", "interleave")
            if targets:
                self.put_known(world, targets[0], M[0])
                self.put_known(world, targets[1], M[1])
                self.check_file(world, targets[0], M[0], what)
                self.check_file(world, targets[1], M[1], what)
            return
        if op == "flip2":
            first, second = val
            got = self.to_xyz(second, order)
            self.cmp(got, A, what + " applied twice", "flip_involution")
            f1 = np.asarray(first)
            if f1.shape != A.shape or sorted(f1.ravel().tolist()) != sorted(A.ravel().tolist()):
                raise Violation("flip_not_permutation", "flip", "%s: a single flip changed the shape or the set of pixel values" % what)
            if step.get("via_file"):
                mid = self.abspath(world, step["mid"])
                self.put_known(world, mid, f1)
                self.check_file(world, mid, f1.astype(A.dtype), what + " (intermediate)")
            outs = [t for t in targets if not step.get("via_file") or t != self.abspath(world, step["mid"])]
            if step.get("out"):
                t = self.abspath(world, step["out"])
                self.put_known(world, t, A)
                self.check_file(world, t, A, what)
            return
        got = self.to_xyz(val, order)
        if op == "crop":
            W, H = A.shape[0], A.shape[1]
            nw = step.get("new_width") or W
            nh = step.get("new_height") or H
            if got.shape != (nw, nh, A.shape[2]):
                sig = "shape_swapped" if got.shape == (nh, nw, A.shape[2]) else "shape"
                raise Violation("result_values", sig, "%s: shape %r, expected %r" % (what, got.shape, (nw, nh, A.shape[2])))
            # the central window: cryoCAT's image centre is pixel floor(N/2) (the same convention as the box centre of
            # maps), so the window of size w is the one whose own centre pixel floor(w/2) sits on it
            sx, sy = W // 2 - nw // 2, H // 2 - nh // 2
            ok = (got.astype(np.float64) == A[sx:sx + nw, sy:sy + nh, :].astype(np.float64)).all()
            M = A[sx:sx + nw, sy:sy + nh, :]
            if (W - nw) % 2 == 1 or (H - nh) % 2 == 1:
                world.probes["crop_odd_margin"] += 1
            if not ok:
                raise Violation("result_values", "crop_window", "%s: result is not the central %dx%d window of the %dx%d images" % (
                    what, nw, nh, W, H))
        elif op == "bin":
            f = step["factor"]
            W, H, n = A.shape
            cw, ch = W // f, H // f
            if got.shape[2] != n or got.shape[0] < cw or got.shape[1] < ch or got.shape[0] > -(W // -f) or got.shape[1] > -(H // -f):
                raise Violation("result_values", "bin_shape", "%s: shape %r for %r binned by %d" % (what, got.shape, A.shape, f))
            if cw and ch:
                blocks = A[:cw * f, :ch * f, :].astype(np.float64).reshape(cw, f, ch, f, n).mean(axis=(1, 3))
                tol = 1e-4 * max(1.0, float(np.abs(blocks).max())) if A.dtype.kind == "f" else 1.0
                g = got[:cw, :ch, :].astype(np.float64)
                bad = ~(np.abs(g - blocks) <= tol) if A.dtype.kind == "f" else ~(np.abs(g - blocks) < 1.0)
                if bad.any():
                    i = tuple(int(v) for v in np.argwhere(bad)[0])
                    raise Violation("result_values", "bin_mean", "%s: block %r is %r, block mean is %r" % (what, i, g[i], blocks[i]))
            M = got.astype(A.dtype)
        else:
            self.cmp(got, M, what, "result_values")
        if np.asarray(val).dtype != A.dtype:
            world.probes["result_dtype_changed"] += 1
        if targets:
            t = targets[0]
            self.put_known(world, t, M)
            self.check_file(world, t, np.asarray(M).astype(A.dtype), what)
            world.stats["judged_files"] += 1

    # ------------------------------------------------------------------ shrinking
    def shrink_step(self, step):
        for key in ("arr",):
            if key in step:
                yield from self._shrink_recipe(step, lambda r: dict(step, arr=r), step["arr"])
        src = step.get("src")
        if src and src.get("kind") == "array":
            def mk(r):
                return dict(step, src=dict(src, arr=r))
            for s in self._shrink_recipe(step, mk, src["arr"]):
                n = s["src"]["arr"]["shape"][2]
                if "tilts" in s and len(s["tilts"]) != n:
                    s = dict(s, tilts=[float(i) for i in range(n)][::-1])
                yield s
            if src["input_order"] != "xyz":
                yield dict(step, src=dict(src, input_order="xyz"))
        if step.get("output_order") == "zyx":
            yield dict(step, output_order="xyz")
        if step.get("out"):
            yield dict(step, out=None)
        if step.get("tilts_as") in ("file", "list"):
            yield dict(step, tilts_as="array")
        if step.get("idx_as") in ("file", "list"):
            yield dict(step, idx_as="array")
        if step.get("idx") and len(step["idx"]) > 1:
            yield dict(step, idx=step["idx"][:1])
        if step.get("via_file"):
            yield dict(step, via_file=False)

    def _shrink_recipe(self, step, mk, r):
        sh = r["shape"]
        mins = [4, 4, 2] if len(sh) == 3 else [1] * len(sh)
        for i in range(len(sh)):
            if sh[i] > mins[i]:
                s2 = list(sh)
                s2[i] = max(mins[i], sh[i] // 2)
                yield mk(dict(r, shape=s2))
                s3 = list(sh)
                s3[i] = sh[i] - 1
                yield mk(dict(r, shape=s3))
        if r["kind"] != "ramp":
            yield mk(dict(r, kind="ramp", seed=0))
        if r["dtype"] != "float32":
            yield mk(dict(r, dtype="float32"))

"""C20 - membrane thickness pairs: one-to-one, forward, within range and cone.

The seam is the *scheduler*: ``find_matches_parallel`` is a numba ``prange`` kernel whose iterations
run on worker threads over shared output arrays.  Each run builds two jittered sheets, calls
``measure_thickness_cpu`` (original, rigidly moved, voxel-rescaled, roles swapped) and drives the
candidate kernel's Python source through cryosim.stepper with 1..4 simulated workers, a seeded
iteration-to-worker assignment, line-level pre-emption and worker stalls; the compiled kernel is run
single-threaded as a cross-check.  ``time.time`` as seen by memthick is the simulator's logical clock.
Oracle: brute-force candidate set + greedy-matching invariants (one-to-one, forward, range, cone,
maximality, per-source optimality), invariance under rigid motion / scale / role swap, kernel output
independent of worker count, assignment and interleaving.
"""
import math

import numpy as np

from ..core import Property, Violation, Skip, ROOT
from ..models import pose
from ..stepper import Stepper

from cryocat import memthick


class _Clock:
    """logical clock handed to memthick as its ``time`` module"""

    def __init__(self):
        self.now = 1.7e9

    def time(self):
        self.now += 0.001
        return self.now

    def perf_counter(self):
        return self.time()

    def __getattr__(self, name):
        import time as _t
        return getattr(_t, name)


CLOCK = _Clock()
memthick.time = CLOCK
_STEPPER = [None]
_REAL_PRANGE = memthick.prange


def _sim_prange(*args):
    st = _STEPPER[0]
    return st.prange(*args) if st is not None else range(*args)


# memthick.prange is switched to _sim_prange only around calls of the kernel's Python source (.py_func);
# the compiled kernel must be compiled against numba's real prange


def gen_sheets(rng, n1, n2, style, flip=0.0, dense2=1.0, shear=0.0):
    """two roughly parallel sheets, as voxel coordinates; returns points, normals, surface labels"""
    gap = rng.uniform(3.0, 6.0)
    spacing = rng.uniform(1.8, 2.6)
    pts, nrm, lab = [], [], []
    curv = rng.uniform(0.0, 0.01) if style == "curved" else 0.0
    tilt = rng.uniform(-0.15, 0.15) if style == "tilted" else 0.0
    side = int(math.ceil(math.sqrt(max(n1, n2))))
    for s, n in ((1, n1), (2, n2)):
        k = 0
        sp = spacing if s == 1 else spacing / dense2
        side_s = int(math.ceil(math.sqrt(n)))
        for i in range(side_s):
            for j in range(side_s):
                if k >= n:
                    break
                x = i * sp + rng.uniform(-0.4, 0.4) * sp / spacing
                y = j * sp + rng.uniform(-0.4, 0.4) * sp / spacing
                z0 = curv * (x * x + y * y) + tilt * x
                z = z0 + (0.0 if s == 1 else gap) + rng.uniform(-0.3, 0.3)
                pts.append([x + 20.0, y + 20.0, z + 20.0])
                nz = 1.0 if s == 1 else -1.0
                nv = np.array([rng.gauss(0, 0.05) - (2 * curv * x + tilt) * nz, rng.gauss(0, 0.05) - 2 * curv * y * nz, nz])
                if shear:
                    nv = nv + np.array([shear * nz, 0.0, 0.0])   # normals oblique to the sheets (sheared segmentation)
                nv = nv / np.linalg.norm(nv)
                if flip and rng.random() < flip:
                    nv = -nv  # a mis-oriented normal: its targets lie behind it and must not be paired
                nrm.append(nv.tolist())
                lab.append(s)
                k += 1
    order = list(range(len(pts)))
    rng.shuffle(order)  # arbitrary surface labelling: the two surfaces are interleaved in the arrays
    return [pts[i] for i in order], [nrm[i] for i in order], [lab[i] for i in order], gap


def admissible(points, normals, src, tgt, max_vox, max_angle_deg):
    """brute-force reference: dict src -> list of (dist, tgt) that are forward, in range and inside the cone"""
    out = {}
    margins = []
    tan_max = math.tan(math.radians(max_angle_deg))
    for i in src:
        p, n = points[i], normals[i]
        lst = []
        for j in tgt:
            d = points[j] - p
            dist = float(np.linalg.norm(d))
            if dist > 1.5 * max_vox:
                continue
            proj = float(d @ n)
            lat = float(np.linalg.norm(d - proj * n))
            margins.append(abs(dist - max_vox) / max_vox)
            if dist < max_vox:
                margins.append(abs(proj) / max(dist, 1e-12))
                if proj > 0:
                    ang = math.degrees(math.atan2(lat, proj))
                    margins.append(abs(ang - max_angle_deg) / max_angle_deg)
                    if lat < tan_max * proj:
                        lst.append((dist, int(j)))
        out[int(i)] = sorted(lst)
    return out, (min(margins) if margins else 1.0)


class C20(Property):
    ID = "C20"
    SESSIONS = ["s0"]
    RUNS = {"quick": (300, 500), "thorough": (6000, 10000)}
    MUST_REACH = {"probes": ["invariance_checked", "kernel_runs", "workers_2", "workers_3", "workers_4", "kernel_buffer_reuse", "pairs_checked"], "faults": ["preemptions", "worker_stall"]}
    COMPONENTS = {"real": ["cryocat.memthick.measure_thickness_cpu / process_matches_cpu2cpu (working tree of /repo)",
                           "Python source of the numba kernel find_matches_parallel (.py_func)",
                           "compiled kernel with NUMBA_NUM_THREADS=1 (cross-check only)", "scipy KDTree", "numpy"],
                  "stub": ["numba thread pool -> cryosim.stepper (baton-passing Python threads, sys.settrace pre-emption)",
                           "prange loop -> fork/join: source rewritten so that the loop body is a function run by the simulated workers on their share of the indices; code before/after the loop runs once, what it binds is shared",
                           "numba.get_num_threads()/get_thread_id() inside the kernel -> simulated worker count / worker id",
                           "memthick.time -> logical clock"]}
    ASSUMPTIONS = ["numba parallel=True semantics: fork/join at the prange loop; index space partitioned among workers in any way; names plainly assigned in the loop body are iteration-private (first-private), x += ... on an outer name is a reduction, everything bound before the loop is shared",
                   "pre-emption points are source-line boundaries of the loop body (a single line is atomic)",
                   "the multi-threaded *compiled* kernel is not part of any verdict (its interleaving is not the simulator's)",
                   "distance ties and points within 1e-6 (relative) of the range or cone boundary are excluded from invariance comparisons",
                   "a clean batch is evidence over the sampled seeds, not a proof"]

    def warmup(self):
        pts = np.random.rand(6, 3) * 5
        nr = np.tile([0.0, 0.0, 1.0], (6, 1))
        s = np.array([1, 1, 1, 0, 0, 0], dtype=bool)
        md = np.zeros((6, 4), dtype=np.float32)
        mi = np.zeros((6, 4), dtype=np.int32)
        mc = np.zeros(6, dtype=np.int32)
        memthick.find_matches_parallel(pts, nr, s, ~s, np.where(~s)[0], 5.0, 0.9, md, mi, mc)

    def config(self, rng, tier, faulty):
        return {"max_steps": rng.pick([1, 2]), "big": tier == "thorough" and rng.chance(0.2), "env_rate": 0.0,
                "env_kinds": [], "fault_rate": 0.0, "fault_kinds": [], "schedule_faults": faulty}

    def gen_step(self, world, rng):
        cfg = world.cfg
        if cfg["schedule_faults"]:
            n1 = rng.randrange(10, 60)
            T = rng.randrange(2, 5)
            p = rng.pick([0.02, 0.1, 0.3])
        else:
            n1 = rng.randrange(10, 120) if not cfg["big"] else rng.randrange(200, 300)
            T = 1
            p = 0.0
        n2 = max(8, n1 + rng.randrange(-6, 7))
        dense2 = 1.0
        if rng.chance(0.3):
            # a finely sampled target surface: dozens of targets inside the range sphere, few of them inside the cone
            dense2 = rng.pick([2.0, 3.0])
            n1 = min(n1, 36)
            n2 = int(n1 * dense2 * dense2)
        shear = rng.pick([0.0, 0.6, 0.8]) if dense2 > 1.0 else 0.0
        pts, nrm, lab, gap = gen_sheets(rng, n1, n2, rng.pick(["flat", "curved", "tilted"]), rng.pick([0.0, 0.1, 0.3]), dense2, shear)
        voxel = rng.pick([0.5, 0.78, 1.0, 1.5, 2.0])
        st = {"op": "measure", "sess": "s0", "points": pts, "normals": nrm, "labels": lab, "voxel": voxel,
              # the range limit sits anywhere from just below the sheet distance (many pairs right at the limit)
              # to well above it
              "max_nm": round(gap * voxel * (rng.pick([0.97, 1.02, 1.06, 1.1, rng.uniform(1.15, 1.8), rng.uniform(1.15, 1.8)])
                                             if not shear else rng.uniform(1.5, 1.9)), 3),
              "max_angle": rng.pick([1, 3, 5, 10, 20, 30]),
              "direction": rng.pick(["1to2", "1to2", "2to1"]), "num_threads": rng.pick([None, 1]),
              "motion": {"ang": pose.random_rotation_angles(rng), "t": [round(rng.uniform(-50, 50), 2) for _ in range(3)]},
              "scale": rng.pick([0.5, 2.0, 1.3]), "workers": T, "preempt": p, "sched_seed": rng.randrange(1 << 30),
              "assign": rng.pick(["round_robin", "blocks", "random"]), "order": rng.pick(["ascending", "shuffled", "descending"]),
              "stall": rng.pick([None, None, [rng.randrange(0, 4), rng.randrange(50, 2000)]]),
              "clock_jump": rng.pick([0.0, 0.0, 3600.0, -86400.0])}
        return st

    # ------------------------------------------------------------------ execution
    def apply(self, world, step):
        if step["op"] != "measure":
            raise Skip()
        points = np.array(step["points"], dtype=np.float64)
        normals = np.array(step["normals"], dtype=np.float64)
        lab = np.array(step["labels"])
        s1, s2 = lab == 1, lab == 2
        voxel, max_nm, max_angle = step["voxel"], step["max_nm"], float(step["max_angle"])
        direction = step["direction"]
        CLOCK.now += step.get("clock_jump", 0.0)

        def measure(pts, nrm, m1, m2, vox, direc, copy=True):
            if not copy:
                return memthick.measure_thickness_cpu(pts, nrm, m1, m2, vox, max_thickness_nm=max_nm, max_angle_degrees=max_angle,
                                                      direction=direc, num_threads=step["num_threads"], logger=None)
            return memthick.measure_thickness_cpu(pts.copy(), nrm.copy(), m1.copy(), m2.copy(), vox, max_thickness_nm=max_nm,
                                                  max_angle_degrees=max_angle, direction=direc, num_threads=step["num_threads"],
                                                  logger=None)

        out = world.call("s0", measure, points, normals, s1, s2, voxel, direction)
        if not out.ok:
            raise Violation("op_raised", "measure:%s" % out.describe(), "measure_thickness_cpu raised %r\n%s" % (out.exc, out.tb))
        thick, valid, pairs = out.value
        src_mask, tgt_mask = (s1, s2) if direction == "1to2" else (s2, s1)
        src, tgt = np.where(src_mask)[0], np.where(tgt_mask)[0]
        max_vox = max_nm / voxel
        cand, margin = admissible(points, normals, src, tgt, max_vox, max_angle)
        in_ball = max((int((np.linalg.norm(points[tgt] - points[i], axis=1) < max_vox).sum()) for i in src), default=0)
        if in_ball > 25:
            world.probes["more_than_25_targets_in_range"] += 1
        ncand = max((len(v) for v in cand.values()), default=0)
        if ncand >= 25:
            world.probes["too_many_candidates_skipped"] += 1
            return []
        self.check_pairing(world, points, normals, src, tgt, cand, thick, valid, pairs, voxel, max_vox, max_angle, "measure_thickness_cpu(%s)" % direction)
        world.stats["acks"] += 1
        world.probes["pairs_checked"] += int(valid.sum())
        dists = sorted(d for v in cand.values() for d, _ in v)
        gaps = [b - a for a, b in zip(dists, dists[1:])]
        robust = margin > 1e-6 and (not gaps or min(gaps) > 1e-7)
        if robust:
            # rigid motion of all points and normals
            R = pose.R_particle(*step["motion"]["ang"])
            t = np.array(step["motion"]["t"])
            o2 = world.call("s0", measure, points @ R.T + t, normals @ R.T, s1, s2, voxel, direction)
            self.same_result(world, o2, (thick, valid, pairs), "under a rigid motion of all points and normals", "rigid_motion")
            # the caller's own arrays, measured, moved *in place*, measured again (same array objects)
            pobj, nobj = points.copy(), normals.copy()
            o2a = world.call("s0", measure, pobj, nobj, s1, s2, voxel, direction, False)
            self.same_result(world, o2a, (thick, valid, pairs), "when called with the caller's arrays directly", "same_arrays")
            pobj[...] = points @ R.T + t
            nobj[...] = normals @ R.T
            o2b = world.call("s0", measure, pobj, nobj, s1, s2, voxel, direction, False)
            self.same_result(world, o2b, (thick, valid, pairs), "after the same arrays were moved rigidly in place", "rigid_motion_in_place")
            # voxel rescaling: coordinates x f, voxel size / f -> same physical geometry
            f = step["scale"]
            o3 = world.call("s0", measure, points * f, normals, s1, s2, voxel / f, direction)
            self.same_result(world, o3, (thick, valid, pairs), "when coordinates are scaled by %r and the voxel size by 1/%r" % (f, f), "voxel_scale")
            # role swap
            other = "2to1" if direction == "1to2" else "1to2"
            o4 = world.call("s0", measure, points, normals, s2, s1, voxel, other)
            self.same_result(world, o4, (thick, valid, pairs), "with direction %s and the surface labels swapped" % other, "direction_swap")
            world.probes["invariance_checked"] += 1
        else:
            world.probes["near_tie_skipped"] += 1
        self.check_kernel(world, step, points, normals, src_mask, tgt_mask, tgt, cand, max_vox, max_angle)
        return []

    def check_pairing(self, world, points, normals, src, tgt, cand, thick, valid, pairs, voxel, max_vox, max_angle, what):
        world.oracle()
        n = len(points)
        if len(thick) != n or len(valid) != n or len(pairs) != n:
            raise Violation("result_shape", "shape", "%s: result arrays have lengths %d/%d/%d for %d points" % (what, len(thick), len(valid), len(pairs), n))
        srcset = set(int(i) for i in src)
        used = {}
        for i in np.where(valid)[0]:
            i = int(i)
            j = int(pairs[i])
            if i not in srcset:
                raise Violation("pairing", "non_source_matched", "%s: point %d is not a source point but has a pair" % (what, i))
            if j in used:
                raise Violation("pairing", "target_used_twice", "%s: target %d is paired with sources %d and %d" % (what, j, used[j], i))
            used[j] = i
            d = points[j] - points[i]
            dist = float(np.linalg.norm(d))
            proj = float(d @ normals[i])
            lat = float(np.linalg.norm(d - proj * normals[i]))
            if j not in set(int(x) for x in tgt):
                raise Violation("pairing", "non_target_paired", "%s: source %d paired with %d, which is not on the target surface" % (what, i, j))
            if not abs(float(thick[i]) - dist * voxel) <= 1e-4 * max(1.0, dist * voxel):
                raise Violation("thickness", "value", "%s: source %d thickness %r, distance x voxel size is %r" % (what, i, float(thick[i]), dist * voxel))
            if dist > max_vox * (1 + 1e-9):
                raise Violation("pairing", "beyond_max_thickness", "%s: pair %d-%d is %r voxels apart, maximum %r" % (what, i, j, dist, max_vox))
            if proj <= 0:
                raise Violation("pairing", "behind_normal", "%s: target %d lies behind source %d (projection %r)" % (what, j, i, proj))
            ang = math.degrees(math.atan2(lat, proj))
            if ang > max_angle * (1 + 1e-9):
                raise Violation("pairing", "outside_cone", "%s: pair %d-%d is %.3f degrees off the source normal, max_angle is %r" % (what, i, j, ang, max_angle))
        matched_t = set(used)
        for i, lst in cand.items():
            free = [(d, j) for d, j in lst if j not in matched_t]
            if not valid[i]:
                if free:
                    raise Violation("greedy", "admissible_pair_left", "%s: source %d and target %d are both unmatched although they form an admissible pair" % (what, i, free[0][1]))
            else:
                mine = float(np.linalg.norm(points[int(pairs[i])] - points[i]))
                closer = [(d, j) for d, j in free if d < mine * (1 - 1e-9)]
                if closer:
                    raise Violation("greedy", "closer_target_unmatched", "%s: source %d is paired at distance %r although the unmatched admissible target %d is at %r" % (
                        what, i, mine, closer[0][1], closer[0][0]))

    def same_result(self, world, out, ref, how, sig):
        world.oracle()
        if not out.ok:
            raise Violation("op_raised", "measure:%s" % out.describe(), "measure_thickness_cpu %s raised %r\n%s" % (how, out.exc, out.tb))
        thick, valid, pairs = out.value
        t0, v0, p0 = ref
        if not np.array_equal(valid, v0) or not np.array_equal(pairs[v0], p0[v0]):
            k = int(np.argmax((valid != v0) | ((pairs != p0) & v0)))
            raise Violation("invariance", sig, "the pairing changes %s: e.g. point %d valid %r->%r pair %r->%r" % (how, k, bool(v0[k]), bool(valid[k]), int(p0[k]), int(pairs[k])))
        if not np.allclose(thick[v0], t0[v0], rtol=1e-4, atol=1e-5):
            raise Violation("invariance", sig + ":thickness", "thickness values change %s" % how)

    def partitioner(self, step):
        import random
        T = step["workers"]

        def partition(idx):
            r = random.Random(step["sched_seed"] ^ 0x5EED ^ len(idx))
            n = len(idx)
            if step["assign"] == "round_robin":
                sh = [idx[w::T] for w in range(T)]
            elif step["assign"] == "blocks":
                b = -(-n // T) if n else 1
                sh = [idx[w * b:(w + 1) * b] for w in range(T)]
            else:
                sh = [[] for _ in range(T)]
                for i in idx:
                    sh[r.randrange(T)].append(i)
            for s_ in sh:
                if step["order"] == "shuffled":
                    r.shuffle(s_)
                elif step["order"] == "descending":
                    s_.reverse()
            return sh
        return partition

    def check_kernel(self, world, step, points, normals, src_mask, tgt_mask, tgt, cand, max_vox, max_angle):
        n = len(points)
        K = 32
        cosv = math.cos(math.radians(max_angle))
        ref = None
        results = []
        # (a) simulated workers with seeded interleaving; (b) one worker, sequential; (c) compiled, single-threaded
        for mode in ("stepped", "sequential", "compiled"):
            md = np.zeros((n, K), dtype=np.float32)
            mi = np.full((n, K), -1, dtype=np.int32)
            mc = np.zeros(n, dtype=np.int32)
            args = (points, normals, src_mask, tgt_mask, tgt.astype(np.int64), float(max_vox), float(cosv), md, mi, mc)
            if mode == "compiled":
                out = world.call("s0", memthick.find_matches_parallel, *args)
            elif mode == "sequential":
                _STEPPER[0] = None
                memthick.prange = _sim_prange
                try:
                    out = world.call("s0", memthick.find_matches_parallel.py_func, *args)
                finally:
                    memthick.prange = _REAL_PRANGE
            else:
                if step["workers"] <= 1 and step["preempt"] == 0.0:
                    continue
                stall = {step["stall"][0] % step["workers"]: step["stall"][1]} if step.get("stall") else None
                st = Stepper(step["sched_seed"], step["workers"], step["preempt"], stall)
                _STEPPER[0] = st
                memthick.prange = _sim_prange
                try:
                    out = world.call("s0", st.run, memthick.find_matches_parallel.py_func, args, self.partitioner(step))
                finally:
                    _STEPPER[0] = None
                    memthick.prange = _REAL_PRANGE
                if out.ok:
                    world.fs.fired["preemptions"] += out.value["switches"]
                    world.stats["kernel_line_steps"] += out.value["steps"]
                    world.note("sched %x" % out.value["sig"])
                    world.probes["stepping_" + out.value["mode"]] += 1
                    world.stats["parallel_regions"] += out.value["regions"]
                    world.reached("thread_schedules", "%x" % out.value["sig"])
                    if stall:
                        world.fs.fired["worker_stall"] += 1
                    world.probes["workers_%d" % step["workers"]] += 1
            if not out.ok:
                raise Violation("kernel_raised", "%s:%s" % (mode, out.describe()), "find_matches_parallel (%s) raised %r\n%s" % (mode, out.exc, out.tb))
            got = {}
            for i in range(n):
                c = int(mc[i])
                got[i] = sorted((float(md[i, k]), int(mi[i, k])) for k in range(min(c, K)))
            results.append((mode, got, mc.copy()))
        # the caller re-uses its output buffers for a second, narrower query (only the rows of source points are
        # the kernel's to define; every one of them must be redefined by the call)
        narrow = max_angle / 4.0
        cand2, _m = admissible(points, normals, np.where(src_mask)[0], tgt, max_vox, narrow)
        _STEPPER[0] = None
        memthick.prange = _sim_prange
        try:
            args2 = (points, normals, src_mask, tgt_mask, tgt.astype(np.int64), float(max_vox), float(math.cos(math.radians(narrow))), md, mi, mc)
            out = world.call("s0", memthick.find_matches_parallel.py_func, *args2)
        finally:
            memthick.prange = _REAL_PRANGE
        if not out.ok:
            raise Violation("kernel_raised", "reuse:%s" % out.describe(), "find_matches_parallel (re-used buffers) raised %r\n%s" % (out.exc, out.tb))
        got2 = {i: sorted((float(md[i, k]), int(mi[i, k])) for k in range(min(int(mc[i]), K))) for i in range(n) if src_mask[i]}
        results2 = [("reused_buffers", got2, cand2)]
        world.probes["kernel_buffer_reuse"] += 1
        world.oracle()
        for mode, got, want_all in results2:
            for i, g in got.items():
                want = want_all.get(i, [])
                if sorted(j for _, j in g) != sorted(j for _, j in want):
                    raise Violation("kernel_candidates", "%s:stale_rows" % mode, "find_matches_parallel called again with the same output buffers and max_angle %.3g: source %d reports candidates %r, the brute-force set is %r" % (
                        narrow, i, [j for _, j in g], [j for _, j in want]))
        for mode, got, mc in results:
            for i in range(n):
                want = cand.get(i, [])
                if [j for _, j in got[i]] != [j for _, j in want] and sorted(j for _, j in got[i]) != sorted(j for _, j in want):
                    extra = sorted(set(j for _, j in got[i]) - set(j for _, j in want))
                    missing = sorted(set(j for _, j in want) - set(j for _, j in got[i]))
                    sig = "candidates_extra" if extra and not missing else ("candidates_missing" if missing and not extra else "candidates_differ")
                    raise Violation("kernel_candidates", "%s:%s" % (mode, sig), "find_matches_parallel (%s, %d workers): source %d has candidates %r, the brute-force set is %r" % (
                        mode, step["workers"] if mode == "stepped" else 1, i, [j for _, j in got[i]], [j for _, j in want]))
                for (dg, jg), (dw, jw) in zip(sorted(got[i], key=lambda x: x[1]), sorted(want, key=lambda x: x[1])):
                    if abs(dg - dw) > 1e-4 * max(1.0, dw):
                        raise Violation("kernel_candidates", "%s:distance" % mode, "find_matches_parallel (%s): source %d candidate %d distance %r, expected %r" % (mode, i, jg, dg, dw))
        world.stats["acks"] += 1
        world.probes["kernel_runs"] += len(results)

    # ------------------------------------------------------------------ shrinking
    def shrink_step(self, step):
        n = len(step["points"])
        if n > 4:
            for keep in (slice(0, n // 2), slice(n // 2, None), slice(0, n - 1), slice(1, None)):
                s2 = dict(step, points=step["points"][keep], normals=step["normals"][keep], labels=step["labels"][keep])
                if 1 in s2["labels"] and 2 in s2["labels"]:
                    yield s2
        if step["workers"] > 2:
            yield dict(step, workers=2)
        if step.get("stall"):
            yield dict(step, stall=None)
        if step["assign"] != "round_robin":
            yield dict(step, assign="round_robin")
        if step["order"] != "ascending":
            yield dict(step, order="ascending")
        if step["direction"] != "1to2":
            yield dict(step, direction="1to2")

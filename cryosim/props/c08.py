"""C08 - particle-list set algebra and identifier discipline.

Sessions hold up to four live particle lists and drive them through histories of subset / remove /
split (in memory and to files) / intersection / drop-duplicates / merge-and-renumber /
merge-and-drop-duplicates (arguments mixing live objects and paths of lists saved earlier) /
renumber particles / renumber objects, with save -> restart -> load through EM files in between.
A pure-Python row-set model (lists of 20-tuples) is stepped in lock-step; after every step the
table must have exactly the 20 fields and the rows the model prescribes.
Stated plainly: no I/O or schedule seam exists inside the in-memory operations; the simulator
contributes history search, lock-step refinement, restart through storage and minimised replay.
Disk faults apply to the steps that touch files (merge from paths, split to files, save/load).
"""
import numpy as np
import pandas as pd

from ..core import Property, Violation, Skip, outcome_ack, ROOT
from ..gen import MOTL_COLS
from ..models import em as emmodel

from cryocat import cryomotl

IDX = {c: i for i, c in enumerate(MOTL_COLS)}
PATHS = [ROOT + "/work/a.em", ROOT + "/work/b.em", "rel.em"]
PREFIXES = [ROOT + "/work/part_", "p_"]
FEATURES = ["tomo_id", "object_id", "class"]


def gen_rows(rng, n, cfg):
    rows = []
    ids = list(range(1, n + 1))
    rng.shuffle(ids)
    offs = rng.pick([0, 0, 100, 250000, 16777216])   # also identifiers where neighbours differ only in the 6th-8th digit
    for i in range(n):
        r = [0.0] * 20
        r[IDX["score"]] = rng.pick([round(rng.random(), 3), float(rng.randrange(0, 4)) / 4.0])
        r[IDX["subtomo_id"]] = float(ids[i] + offs) if not (cfg["dups"] and rng.chance(0.3)) else float(rng.randrange(1, max(2, n // 2 + 1)) + offs)
        r[IDX["tomo_id"]] = float(rng.randrange(1, cfg["ntomo"] + 1))
        r[IDX["object_id"]] = float(rng.randrange(1, cfg["nobj"] + 1))
        r[IDX["class"]] = float(rng.randrange(1, 4))
        for c in ("x", "y", "z"):
            r[IDX[c]] = float(rng.randrange(1, 500))
        for c in ("shift_x", "shift_y", "shift_z"):
            r[IDX[c]] = round(rng.uniform(-1, 1), 2)
        for c in ("phi", "psi", "theta"):
            r[IDX[c]] = round(rng.uniform(-180, 180), 1)
        r[IDX["geom1"]] = round(rng.uniform(0, 10), 2)
        r[IDX["geom2"]] = float(rng.randrange(0, 5))
        r[IDX["geom5"]] = float(rng.randrange(1, 1000000))  # a tag: makes rows recognisable
        if cfg.get("nan_rate"):
            for c in ("geom2", "subtomo_mean", "geom3", "geom4", "shift_z"):
                if rng.random() < cfg["nan_rate"]:
                    r[IDX[c]] = None  # a missing value (NaN) in a field no operation keys on
        rows.append(r)
    return rows


def to_matrix(rows):
    return np.array([[np.nan if v is None else v for v in r] for r in rows], dtype=np.float64).reshape(len(rows), 20)


def distinct(vals):
    """requested values, each once, in request order (what a value requested twice should yield is not stated)"""
    out = []
    for v in vals:
        if v not in out:
            out.append(v)
    return out


def norm_row(r):
    """canonical form of a row: a missing value (NaN) and 0 are the same thing in cryoCAT - constructors,
    fill() and the EM writer all turn NaN into 0 - so an operation that fills a hole with 0 has not changed
    the field; what must never happen is a hole being filled with some *other* row's value"""
    return [0.0 if (v is None or (isinstance(v, float) and v != v)) else float(v) for v in r]


def f32rows(rows):
    """what an EM file holds: single precision, missing values written as 0"""
    m = to_matrix(rows)
    m = np.where(np.isnan(m), 0.0, m)
    return m.astype(np.float32).astype(np.float64).tolist()


class C08(Property):
    ID = "C08"
    SESSIONS = ["s0", "s1"]
    RUNS = {"quick": (5000, 2000), "thorough": (120000, 40000)}
    MUST_REACH = {"probes": ["empty_list", "requested_value_absent", "intersection_second_list_repeats_id", "split_to_files", "merge_from_path", "restart_through_em_file", "missing_values"], "faults": ["crash", "eio_read", "open_fail"]}

    def config(self, rng, tier, faulty):
        cfg = {
            "max_steps": rng.pick([5, 8, 12]),
            "max_rows": rng.pick([0, 2, 6, 20, 60] if tier == "quick" else [0, 2, 6, 20, 60, 200]),
            # how many values one subset/remove call may ask for: size thresholds inside the library (a vectorised
            # path for long value lists, chunking) must not be a blind spot of the workload
            "max_values": rng.pick([3, 3, 8, 30, 70]),
            "ntomo": rng.pick([1, 2, 4]), "nobj": rng.pick([1, 3, 6]), "dups": rng.chance(0.5),
            "nan_rate": rng.pick([0.0, 0.0, 0.1, 0.3]),
            "env_rate": rng.pick([0.0, 0.05, 0.1]),
            "env_kinds": ["env.restart", "env.cwd", "env.foreign_put"],
            "fault_rate": 0.0, "fault_kinds": [],
        }
        if faulty:
            kinds = ["enospc", "eio_write", "eio_read", "short_write", "short_read", "eintr", "crash", "open_fail", "toctou"]
            rng.shuffle(kinds)
            cfg["fault_kinds"] = sorted(kinds[: rng.randrange(1, len(kinds) + 1)])
            cfg["fault_rate"] = rng.pick([0.4, 0.7])
            cfg["env_kinds"] = cfg["env_kinds"] + rng.pick([[], ["env.handle_budget", "env.heal"], ["env.foreign_delete"]])
        return cfg

    def init(self, world):
        world.fs.mkdir_raw(ROOT + "/elsewhere")
        world.fs.mkdir_raw(ROOT + "/data")
        world.model["n"] = 0

    def paths(self, world):
        return [self.abspath(world, p) for p in PATHS]

    def new_handle(self, world):
        world.model["n"] += 1
        return "m%d" % world.model["n"]

    # ------------------------------------------------------------------ generation
    def gen_step(self, world, rng):
        sess = rng.pick(self.SESSIONS)
        hs = world.session(sess)
        handles = sorted(hs)
        cfg = world.cfg
        if not handles or (len(handles) < 4 and rng.chance(0.25)):
            n = rng.randrange(0, cfg["max_rows"] + 1)
            return {"op": "new", "sess": sess, "h": self.new_handle(world), "rows": gen_rows(rng, n, cfg),
                    "wrap": rng.pick(["Motl", "EmMotl"])}
        h = rng.pick(handles)
        op = rng.weighted([("subset", 4), ("remove", 3), ("split", 3), ("intersection", 3), ("dropdup", 3), ("merge_renumber", 3),
                           ("merge_dropdup", 2), ("renumber_particles", 2), ("renumber_objects", 3), ("save", 2), ("load", 2)])
        feat = rng.pick(FEATURES)
        if op in ("subset", "remove") and hs[h]["rows"] and rng.chance(0.3):
            # select / remove by the particle identifier itself (values taken from the list, plus one absent value)
            ids = [r[IDX["subtomo_id"]] for r in hs[h]["rows"]]
            vals = distinct([rng.pick(ids) for _ in range(rng.randrange(1, cfg.get("max_values", 3) + 1))]
                            + ([max(ids) + 1.0] if rng.chance(0.3) else []))
            if op == "subset":
                return {"op": op, "sess": sess, "h": h, "new": self.new_handle(world), "feature": "subtomo_id",
                        "values": vals if rng.chance(0.7) else vals[0], "reset_index": rng.chance(0.6)}
            return {"op": op, "sess": sess, "h": h, "feature": "subtomo_id", "values": vals if rng.chance(0.6) else vals[0]}
        if op == "subset":
            vals = distinct([float(rng.randrange(1, 5)) for _ in range(rng.randrange(1, 4))])
            return {"op": op, "sess": sess, "h": h, "new": self.new_handle(world), "feature": feat,
                    "values": vals if rng.chance(0.7) else vals[0], "reset_index": rng.chance(0.6)}
        if op == "remove":
            vals = distinct([float(rng.randrange(1, 5)) for _ in range(rng.randrange(1, 3))])
            return {"op": op, "sess": sess, "h": h, "feature": feat, "values": vals if rng.chance(0.6) else vals[0]}
        if op == "split":
            return {"op": op, "sess": sess, "h": h, "feature": feat, "write": rng.chance(0.4), "prefix": rng.pick(PREFIXES),
                    "keep": rng.randrange(0, 3), "new": self.new_handle(world), "io": True, "hint": {"write": 2, "any": 12}}
        if op == "intersection":
            return {"op": op, "sess": sess, "h": h, "other": rng.pick(handles), "new": self.new_handle(world),
                    "feature": rng.pick(["subtomo_id", "subtomo_id", "object_id", "tomo_id"])}
        if op == "dropdup":
            return {"op": op, "sess": sess, "h": h, "dup": rng.pick(["subtomo_id", "subtomo_id", "object_id"]),
                    "decision": rng.pick(["score", "score", "geom1"]), "ascending": rng.chance(0.4)}
        if op in ("merge_renumber", "merge_dropdup"):
            k = rng.randrange(1, 4)
            args = []
            for _ in range(k):
                if rng.chance(0.3):
                    args.append({"path": rng.pick(PATHS)})
                else:
                    args.append({"h": rng.pick(handles)})
            return {"op": op, "sess": sess, "args": args, "new": self.new_handle(world), "io": True,
                    "hint": {"read": 3, "any": 8}}
        if op == "renumber_particles":
            return {"op": op, "sess": sess, "h": h}
        if op == "renumber_objects":
            return {"op": op, "sess": sess, "h": h, "start": rng.pick([1, 1, 5, 100])}
        if op == "save":
            return {"op": op, "sess": sess, "h": h, "path": rng.pick(PATHS), "io": True, "hint": {"write": 1, "any": 6}}
        return {"op": "load", "sess": sess, "path": rng.pick(PATHS), "h": self.new_handle(world), "io": True,
                "hint": {"read": 3, "any": 5}}

    def gen_recovery(self, world, rng):
        steps = []
        for p in sorted(world.pending_recovery):
            if p.endswith(".em"):
                h = self.new_handle(world)
                steps.append({"op": "new", "sess": "s0", "h": h, "rows": gen_rows(rng, 3, {"dups": False, "ntomo": 2, "nobj": 2}), "wrap": "Motl"})
                steps.append({"op": "save", "sess": "s0", "h": h, "path": p})
                steps.append({"op": "load", "sess": "s0", "path": p, "h": self.new_handle(world)})
        return steps

    # ------------------------------------------------------------------ oracle
    def actual_rows(self, df, what):
        cols = list(df.columns)
        if sorted(cols) != sorted(MOTL_COLS) or len(cols) != 20:
            missing = [c for c in MOTL_COLS if c not in cols]
            extra = [c for c in cols if c not in MOTL_COLS]
            raise Violation("columns", "missing:%s" % ",".join(missing) if missing else "extra:%s" % ",".join(map(str, extra)),
                            "%s: the table no longer has exactly the 20 fields (missing %r, extra %r)" % (what, missing, extra))
        if not len(df):
            return []
        m = np.column_stack([df[c].to_numpy(dtype=float) for c in MOTL_COLS]).reshape(len(df), 20).tolist()
        return [norm_row(r) for r in m]

    def compare(self, world, df, rows, what, ordered=True, ignore=()):
        world.oracle()
        got = self.actual_rows(df, what)
        rows = [norm_row(r) for r in rows]
        if len(got) != len(rows):
            sig = "more_rows" if len(got) > len(rows) else "fewer_rows"
            raise Violation("row_count", sig, "%s: %d rows, the model has %d" % (what, len(got), len(rows)))
        ign = [IDX[c] for c in ignore]

        def key(r):
            return tuple(v for j, v in enumerate(r) if j not in ign)

        def skey(r):  # sortable (None-safe) version
            return tuple((0, 0.0) if v is None else (1, v) for v in key(r))
        if ordered:
            for i, (g, w) in enumerate(zip(got, rows)):
                if key(g) != key(w):
                    j = [jj for jj in range(20) if jj not in ign and g[jj] != w[jj]][0]
                    sig = "field:%s" % MOTL_COLS[j]
                    if sorted(map(skey, got)) == sorted(map(skey, rows)):
                        sig = "row_order"
                    raise Violation("row_values", sig, "%s: row %d field %s is %r, the model has %r" % (what, i, MOTL_COLS[j], g[j], w[j]))
        else:
            if sorted(map(skey, got)) != sorted(map(skey, rows)):
                raise Violation("row_values", "row_multiset", "%s: the set of rows differs from the model" % what)
        return got

    def get(self, world, step, key="h"):
        hs = world.session(step["sess"])
        if step[key] not in hs:
            raise Skip()
        return hs[step[key]]

    def apply(self, world, step):
        fn = getattr(self, "op_" + step["op"], None)
        if fn is None:
            raise Skip()
        return fn(world, step)

    def put(self, world, step, name, obj, rows):
        world.session(step["sess"])[name] = {"obj": obj, "rows": [norm_row(r) for r in rows]}

    # ------------------------------------------------------------------ execution
    def op_new(self, world, step):
        rows = step["rows"]
        df = pd.DataFrame(to_matrix(rows), columns=MOTL_COLS)
        cls = cryomotl.Motl if step["wrap"] == "Motl" else cryomotl.EmMotl
        out = world.call(step["sess"], cls, df)
        if not out.ok:
            raise Violation("op_raised", "new:%s" % out.describe(), "%s(table of %d rows) raised %r" % (step["wrap"], len(rows), out.exc))
        if any(v is None for r in rows for v in r):
            world.probes["missing_values"] += 1
        if step["wrap"] == "EmMotl":   # EmMotl's constructor documents filling missing values with 0
            rows = [[0.0 if v is None else v for v in r] for r in rows]
        self.put(world, step, step["h"], out.value, rows)
        self.compare(world, out.value.df, rows, "new list")
        if not rows:
            world.probes["empty_list"] += 1
        return []

    def op_subset(self, world, step):
        h = self.get(world, step)
        vals = step["values"]
        vlist = vals if isinstance(vals, list) else [vals]
        f = IDX[step["feature"]]
        out = world.call(step["sess"], h["obj"].get_motl_subset, vals, feature_id=step["feature"], reset_index=step["reset_index"])
        if not out.ok:
            raise Violation("op_raised", "subset:%s" % out.describe(), "get_motl_subset(%r, %s) raised %r\n%s" % (vals, step["feature"], out.exc, out.tb))
        want = [r for v in vlist for r in h["rows"] if r[f] == v]
        self.compare(world, out.value.df, want, "get_motl_subset(%r, %s)" % (vals, step["feature"]))
        self.compare(world, h["obj"].df, h["rows"], "source of get_motl_subset")
        self.put(world, step, step["new"], out.value, want)
        world.stats["acks"] += 1
        if not all(any(r[f] == v for r in h["rows"]) for v in vlist):
            world.probes["requested_value_absent"] += 1
        return []

    def op_remove(self, world, step):
        h = self.get(world, step)
        vals = step["values"]
        vlist = vals if isinstance(vals, list) else [vals]
        f = IDX[step["feature"]]
        out = world.call(step["sess"], h["obj"].remove_feature, step["feature"], vals)
        if not out.ok:
            raise Violation("op_raised", "remove:%s" % out.describe(), "remove_feature(%s, %r) raised %r\n%s" % (step["feature"], vals, out.exc, out.tb))
        h["rows"] = [r for r in h["rows"] if r[f] not in vlist]
        self.compare(world, h["obj"].df, h["rows"], "after remove_feature(%s, %r)" % (step["feature"], vals))
        world.stats["acks"] += 1
        return []

    def op_split(self, world, step):
        h = self.get(world, step)
        f = IDX[step["feature"]]
        uniq = []
        for r in h["rows"]:
            if r[f] not in uniq:
                uniq.append(r[f])
        targets = []
        if step["write"]:
            targets = [self.abspath(world, "%s%d.em" % (step["prefix"], int(v))) for v in uniq]
        out = world.call(step["sess"], h["obj"].split_by_feature, step["feature"], write_out=step["write"],
                         output_prefix=step["prefix"], faults=step.get("faults", ()))
        world.note("split %s write=%s -> %s" % (step["feature"], step["write"], out.describe()))
        if outcome_ack(out):
            world.oracle()
            parts = out.value
            if len(parts) != len(uniq):
                raise Violation("split", "part_count", "split_by_feature(%s): %d parts for %d distinct values" % (step["feature"], len(parts), len(uniq)))
            total = 0
            for v, p in zip(uniq, parts):
                want = [r for r in h["rows"] if r[f] == v]
                self.compare(world, p.df, want, "split_by_feature(%s) part for value %r" % (step["feature"], v))
                total += len(want)
            self.compare(world, h["obj"].df, h["rows"], "source of split_by_feature")
            if parts:
                k = step["keep"] % len(parts)
                self.put(world, step, step["new"], parts[k], [r for r in h["rows"] if r[f] == uniq[k]])
            if step["write"]:
                for v, t in zip(uniq, targets):
                    want32 = f32rows([r for r in h["rows"] if r[f] == v])
                    world.ack(t, {"kind": "rows", "rows": want32})
                    self.check_em(world, t, want32)
                world.probes["split_to_files"] += 1
            world.stats["acks"] += 1
        elif out.faulted:
            for t in targets:
                world.indeterminate(t)
        else:
            raise Violation("op_raised", "split:%s" % out.describe(), "split_by_feature(%s) raised %r\n%s" % (step["feature"], out.exc, out.tb))
        return targets

    def check_em(self, world, path, rows32):
        world.oracle()
        data = world.fs.get(path)
        try:
            em = emmodel.parse(data if data is not None else b"")
        except emmodel.EmFormatError as e:
            raise Violation("em_invalid", "file:invalid", "%s: %s" % (path, e))
        if em["dims"] != (20, len(rows32), 1):
            raise Violation("em_values", "file:dims", "%s: dims %r for %d rows" % (path, em["dims"], len(rows32)))
        got = em["array"][:, :, 0].T.astype(float).tolist()
        if got != [list(r) for r in rows32]:
            raise Violation("em_values", "file:values", "%s does not hold the rows of the list" % path)

    def op_intersection(self, world, step):
        a = self.get(world, step)
        b = self.get(world, step, "other")
        f = IDX[step["feature"]]
        out = world.call(step["sess"], cryomotl.Motl.get_motl_intersection, a["obj"], b["obj"], feature_id=step["feature"])
        if not out.ok:
            raise Violation("op_raised", "intersection:%s" % out.describe(), "get_motl_intersection raised %r\n%s" % (out.exc, out.tb))
        ids = {r[f] for r in b["rows"]}
        want = [r for r in a["rows"] if r[f] in ids]
        if len({r[f] for r in b["rows"]}) != len(b["rows"]):
            world.probes["intersection_second_list_repeats_id"] += 1
        self.compare(world, out.value.df, want, "get_motl_intersection(%s)" % step["feature"])
        self.compare(world, a["obj"].df, a["rows"], "first input of get_motl_intersection")
        self.compare(world, b["obj"].df, b["rows"], "second input of get_motl_intersection")
        self.put(world, step, step["new"], out.value, want)
        world.stats["acks"] += 1
        return []

    def op_dropdup(self, world, step):
        h = self.get(world, step)
        d, c = IDX[step["dup"]], IDX[step["decision"]]
        out = world.call(step["sess"], h["obj"].drop_duplicates, duplicates_column=step["dup"], decision_column=step["decision"],
                         decision_sort_ascending=step["ascending"])
        if not out.ok:
            raise Violation("op_raised", "drop_duplicates:%s" % out.describe(), "drop_duplicates raised %r\n%s" % (out.exc, out.tb))
        got = self.actual_rows(h["obj"].df, "after drop_duplicates")
        self.check_dedup(world, got, h["rows"], d, c, step["ascending"], "drop_duplicates(%s by %s)" % (step["dup"], step["decision"]))
        h["rows"] = got
        world.stats["acks"] += 1
        return []

    def check_dedup(self, world, got, rows, d, c, ascending, what, ignore=()):
        world.oracle()
        ign = [IDX[x] for x in ignore]
        key = lambda r: tuple(v for j, v in enumerate(r) if j not in ign)
        rows = [norm_row(r) for r in rows]
        best = {}
        for r in rows:
            k = r[d]
            if k not in best or (r[c] < best[k] if ascending else r[c] > best[k]):
                best[k] = r[c]
        seen = set()
        pool = {}
        for r in rows:
            pool.setdefault(key(r), 0)
            pool[key(r)] += 1
        for g in got:
            k = g[d]
            if k in seen:
                raise Violation("dedup", "id_kept_twice", "%s: id %r survives more than once" % (what, k))
            seen.add(k)
            if k not in best:
                raise Violation("dedup", "foreign_row", "%s: a row with id %r appeared from nowhere" % (what, k))
            if g[c] != best[k]:
                raise Violation("dedup", "not_best", "%s: id %r kept with decision value %r, the best is %r" % (what, k, g[c], best[k]))
            if pool.get(key(g), 0) == 0:
                raise Violation("dedup", "row_changed", "%s: the surviving row of id %r is not one of the input rows" % (what, k))
        if seen != set(best):
            raise Violation("dedup", "id_lost", "%s: ids %r lost" % (what, sorted(set(best) - seen)[:5]))

    def resolve_args(self, world, step):
        hs = world.session(step["sess"])
        args, models = [], []
        judge = True
        for a in step["args"]:
            if "h" in a:
                if a["h"] not in hs:
                    raise Skip()
                args.append(hs[a["h"]]["obj"])
                models.append(hs[a["h"]]["rows"])
            else:
                p = self.abspath(world, a["path"])
                k = world.known(p)
                args.append(a["path"])
                if isinstance(k, dict) and k.get("kind") == "rows":
                    models.append(k["rows"])
                    world.probes["merge_from_path"] += 1
                else:
                    models.append(None)
                    judge = False
        return args, models, judge

    def check_object_discipline(self, world, got, models, what, subtomo_renumbered):
        """object numbers never collide across inputs while each input keeps its grouping"""
        pos = 0
        used = {}
        for mi, rows in enumerate(models):
            mapping = {}
            for r in rows:
                g = got[pos]
                old, new = r[IDX["object_id"]], g[IDX["object_id"]]
                if old in mapping and mapping[old] != new:
                    raise Violation("merge_objects", "grouping_split", "%s: input %d object %r mapped to both %r and %r" % (what, mi, old, mapping[old], new))
                mapping[old] = new
                pos += 1
            if len(set(mapping.values())) != len(mapping):
                raise Violation("merge_objects", "grouping_merged", "%s: input %d: two objects share a number after merging" % (what, mi))
            for new in mapping.values():
                if new in used and used[new] != mi:
                    raise Violation("merge_objects", "collision", "%s: object number %r is used by inputs %d and %d" % (what, new, used[new], mi))
                used[new] = mi

    def op_merge_renumber(self, world, step):
        args, models, judge = self.resolve_args(world, step)
        out = world.call(step["sess"], cryomotl.Motl.merge_and_renumber, list(args), faults=step.get("faults", ()))
        world.note("merge_and_renumber %d inputs -> %s" % (len(args), out.describe()))
        if outcome_ack(out):
            if judge:
                what = "merge_and_renumber"
                cat = [list(r) for rows in models for r in rows]
                got = self.compare(world, out.value.df, cat, what, ignore=("subtomo_id", "object_id"))
                ids = [g[IDX["subtomo_id"]] for g in got]
                if ids != [float(i) for i in range(1, len(got) + 1)]:
                    raise Violation("merge_subtomo", "not_1_to_N", "%s: subtomogram numbers %r, expected 1..%d" % (what, ids[:8], len(got)))
                self.check_object_discipline(world, got, models, what, True)
                for a, rows in zip(step["args"], models):
                    if "h" in a:
                        self.compare(world, world.session(step["sess"])[a["h"]]["obj"].df, rows, "input of merge_and_renumber")
                self.put(world, step, step["new"], out.value, got)
                world.stats["acks"] += 1
        elif not out.faulted and judge:
            raise Violation("op_raised", "merge_and_renumber:%s" % out.describe(), "merge_and_renumber raised %r\n%s" % (out.exc, out.tb))
        return []

    def op_merge_dropdup(self, world, step):
        args, models, judge = self.resolve_args(world, step)
        out = world.call(step["sess"], cryomotl.Motl.merge_and_drop_duplicates, list(args), faults=step.get("faults", ()))
        world.note("merge_and_drop_duplicates %d inputs -> %s" % (len(args), out.describe()))
        if outcome_ack(out):
            if judge:
                what = "merge_and_drop_duplicates"
                cat = [list(r) for rows in models for r in rows]
                got = self.actual_rows(out.value.df, what)
                self.check_dedup(world, got, cat, IDX["subtomo_id"], IDX["score"], False, what, ignore=("object_id",))
                self.put(world, step, step["new"], out.value, got)
                world.stats["acks"] += 1
        elif not out.faulted and judge:
            raise Violation("op_raised", "merge_and_drop_duplicates:%s" % out.describe(), "merge_and_drop_duplicates raised %r\n%s" % (out.exc, out.tb))
        return []

    def op_renumber_particles(self, world, step):
        h = self.get(world, step)
        out = world.call(step["sess"], h["obj"].renumber_particles)
        if not out.ok:
            raise Violation("op_raised", "renumber_particles:%s" % out.describe(), "renumber_particles raised %r\n%s" % (out.exc, out.tb))
        for i, r in enumerate(h["rows"]):
            r[IDX["subtomo_id"]] = float(i + 1)
        self.compare(world, h["obj"].df, h["rows"], "after renumber_particles")
        world.stats["acks"] += 1
        return []

    def op_renumber_objects(self, world, step):
        h = self.get(world, step)
        out = world.call(step["sess"], h["obj"].renumber_objects_sequentially, step["start"])
        if not out.ok:
            if not h["rows"]:
                world.probes["renumber_objects_on_empty_raised"] += 1
            raise Violation("op_raised", "renumber_objects:%s" % out.describe(), "renumber_objects_sequentially(%r) on %d rows raised %r\n%s" % (
                step["start"], len(h["rows"]), out.exc, out.tb))
        what = "after renumber_objects_sequentially(%r)" % step["start"]
        got = self.compare(world, h["obj"].df, h["rows"], what, ordered=False, ignore=("object_id",))
        world.oracle()
        # match rows through the other 19 fields, then check the grouping bijection
        from collections import defaultdict
        ign = IDX["object_id"]
        key = lambda r: tuple(v for j, v in enumerate(r) if j != ign)
        olds = defaultdict(list)
        for r in map(norm_row, h["rows"]):
            olds[key(r)].append((r[IDX["tomo_id"]], r[ign]))
        fwd, back = {}, {}
        for g in got:
            cands = olds[key(g)]
            grp = cands.pop(0)
            new = g[ign]
            if fwd.setdefault(grp, new) != new:
                raise Violation("renumber_objects", "grouping_split", "%s: object group %r received two numbers" % (what, grp))
            if back.setdefault(new, grp) != grp:
                raise Violation("renumber_objects", "grouping_merged", "%s: number %r given to two (tomogram, object) groups" % (what, new))
        if fwd and sorted(back) != [float(step["start"] + i) for i in range(len(back))]:
            raise Violation("renumber_objects", "not_consecutive", "%s: object numbers %r are not consecutive from %r" % (what, sorted(back)[:8], step["start"]))
        h["rows"] = got
        world.stats["acks"] += 1
        return []

    def op_save(self, world, step):
        h = self.get(world, step)
        path = self.abspath(world, step["path"])
        out = world.call(step["sess"], cryomotl.Motl.write_out, h["obj"], step["path"], "emmotl", faults=step.get("faults", ()))
        world.note("save -> %s" % out.describe())
        if outcome_ack(out):
            want32 = f32rows(h["rows"])
            world.ack(path, {"kind": "rows", "rows": want32})
            self.check_em(world, path, want32)
        elif out.faulted:
            world.indeterminate(path)
        else:
            raise Violation("op_raised", "save:%s" % out.describe(), "fault-free write_out of %d rows raised %r\n%s" % (len(h["rows"]), out.exc, out.tb))
        return [path]

    def op_load(self, world, step):
        path = self.abspath(world, step["path"])
        k = world.known(path)
        judge = isinstance(k, dict) and k.get("kind") == "rows"
        out = world.call(step["sess"], cryomotl.Motl.load, step["path"], faults=step.get("faults", ()))
        world.note("load -> %s" % out.describe())
        if outcome_ack(out):
            if judge:
                self.compare(world, out.value.df, k["rows"], "list loaded from %s" % path)
                self.put(world, step, step["h"], out.value, k["rows"])
                world.probes["restart_through_em_file"] += 1
        elif not out.faulted and judge:
            raise Violation("op_raised", "load:%s" % out.describe(), "fault-free load of %s raised %r\n%s" % (path, out.exc, out.tb))
        return []

    # ------------------------------------------------------------------ shrinking
    def shrink_step(self, step):
        if "rows" in step:
            rows = step["rows"]
            n = len(rows)
            if n > 1:
                for keep in (slice(0, n // 2), slice(n // 2, None), slice(0, n - 1), slice(1, None)):
                    yield dict(step, rows=rows[keep])
            for i, r in enumerate(rows):
                simple = [0.0] * 20
                for c in ("subtomo_id", "tomo_id", "object_id", "class", "score"):
                    simple[IDX[c]] = r[IDX[c]]
                simple[IDX["geom5"]] = float(i + 1)
                if r != simple:
                    yield dict(step, rows=rows[:i] + [simple] + rows[i + 1:])
        if isinstance(step.get("values"), list) and len(step["values"]) > 1:
            v = step["values"]
            yield dict(step, values=v[:1])
            if len(v) > 3:
                yield dict(step, values=v[: len(v) // 2])
                yield dict(step, values=v[len(v) // 2:])
            if len(v) > 2:
                yield dict(step, values=v[:-1])
        if step.get("args") and len(step["args"]) > 1:
            for i in range(len(step["args"])):
                yield dict(step, args=step["args"][:i] + step["args"][i + 1:])
        if step.get("write"):
            yield dict(step, write=False)

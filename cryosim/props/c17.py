"""C17 - tilt-series metadata: mdoc round-trip, loaders and wedge lists are consistent.

A foreign "microscope / processing" actor populates a directory tree (TS_$xxx/...) with mdoc, tlt,
dose, Gctf STAR, CTFFIND4, dimension and z-shift files generated from a grammar and remembers every
number it wrote.  Sessions open / sort / prune / write / re-read mdocs, call the loaders on files
and arrays, and build STOPGAP and EM wedge lists (single and batch) with output files; files go
missing or stale, disk faults and crashes are armed inside the calls.
Oracle: the actor's ground truth; independent mdoc / STAR / EM parsers on the durable bytes.
"""
import numpy as np
import pandas as pd

from ..core import Property, Violation, Skip, outcome_ack, ROOT
from ..models import tsmeta, star as starmodel, em as emmodel

from cryocat import mdoc as ccmdoc
from cryocat import ioutils, wedgeutils

DATA = ROOT + "/data"
OUTS = [ROOT + "/work/out.mdoc", ROOT + "/work/wl.star", ROOT + "/work/wl.em", "rel_out.mdoc", "rel_wl.star"]
LAYOUT_PLAIN = {"eol": "\n", "numbered": True, "seps": ["  "], "lead": " ", "blank_after_labels": 0}


def tdir(tid):
    return "%s/TS_%03d" % (DATA, tid)


def fpath(tid, kind):
    d = tdir(tid)
    return {"mdoc": "%s/%03d.mdoc" % (d, tid), "tlt": "%s/%03d.tlt" % (d, tid), "dose": "%s/%03d_dose.txt" % (d, tid),
            "gctf": "%s/%03d_gctf.star" % (d, tid), "ctffind4": "%s/%03d_ctffind4.txt" % (d, tid),
            "dim": "%s/%03d_dim.txt" % (d, tid), "zshift": "%s/%03d_zshift.txt" % (d, tid)}[kind]


FORMATS = {"mdoc": DATA + "/TS_$xxx/$xxx.mdoc", "tlt": DATA + "/TS_$xxx/$xxx.tlt", "dose": DATA + "/TS_$xxx/$xxx_dose.txt",
           "gctf": DATA + "/TS_$xxx/$xxx_gctf.star", "ctffind4": DATA + "/TS_$xxx/$xxx_ctffind4.txt",
           "dim": DATA + "/TS_$xxx/$xxx_dim.txt", "zshift": DATA + "/TS_$xxx/$xxx_zshift.txt"}


def f32(v):
    return float(np.float32(v))


def close(a, b, rel=1e-6, ab=1e-9):
    return abs(a - b) <= ab + rel * abs(b)


class C17(Property):
    ID = "C17"
    SESSIONS = ["s0", "s1"]
    RUNS = {"quick": (1500, 2500), "thorough": (30000, 40000)}
    MUST_REACH = {"probes": ["tomograms_populated", "crlf_mdoc", "refused_overwrite", "missing_input", "missing_per_tomogram_file_in_batch", "recovery_after_fault", "wedge_list_tilts_unsorted"], "faults": ["crash", "enospc", "eio_write", "eio_read", "short_read", "eintr", "open_fail", "toctou_removed"]}

    def config(self, rng, tier, faulty):
        cfg = {
            "max_steps": rng.pick([5, 8, 12]),
            "max_img": rng.pick([1, 3, 9, 30] if tier == "quick" else [1, 3, 9, 30, 80]),
            "max_tomo": rng.pick([1, 2, 3, 5]),
            # swarm: a run may concentrate on one family of operations (its weights x5), so that long histories on
            # the same objects - open, remove, failed write, write again - are not diluted by the other families
            "focus": rng.pick([None, None, "mdoc", "mdoc", "loaders", "wedge"]),
            "env_rate": rng.pick([0.05, 0.15]),
            "env_kinds": ["env.restart", "env.foreign_delete", "env.foreign_put", "env.cwd"],
            "fault_rate": 0.0, "fault_kinds": [],
        }
        if faulty:
            kinds = ["enospc", "eio_write", "eio_read", "short_write", "short_read", "eintr", "crash", "open_fail",
                     "toctou"]
            rng.shuffle(kinds)
            cfg["fault_kinds"] = sorted(kinds[: rng.randrange(1, len(kinds) + 1)])
            cfg["fault_rate"] = rng.pick([0.3, 0.5])
            cfg["env_kinds"] = cfg["env_kinds"] + rng.pick([[], ["env.capacity", "env.heal"],
                                                            ["env.handle_budget", "env.heal"], ["env.listdir_order"]])
        return cfg

    def init(self, world):
        world.fs.mkdir_raw(DATA)
        world.fs.mkdir_raw(ROOT + "/elsewhere")
        world.model["tomos"] = {}
        world.model["n"] = 0

    def paths(self, world):
        ps = [self.abspath(world, p) for p in OUTS]
        for tid in sorted(world.model["tomos"]):
            ps += [fpath(tid, k) for k in ("mdoc", "tlt", "dose", "gctf", "ctffind4", "dim", "zshift")]
        return ps

    def new_handle(self, world):
        world.model["n"] += 1
        return "m%d" % world.model["n"]

    # ------------------------------------------------------------------ generation
    def gen_aftermath(self, world, step, rng):
        """a write of an Mdoc object failed: the object is still in the caller's hands - looked at and written again"""
        if rng.chance(0.5):
            yield from Property.gen_aftermath(self, world, step, rng)      # the plain retry
        if step["op"] == "mdoc_write" and step.get("h") in world.session(step["sess"]):
            yield {"op": "mdoc_inspect", "sess": step["sess"], "h": step["h"]}
            yield {"op": "mdoc_write", "sess": step["sess"], "h": step["h"], "out": rng.pick([OUTS[0], OUTS[3]]),
                   "overwrite": True, "removed": rng.chance(0.5)}

    def on_step(self, world, step):
        world.model["just_removed"] = step.get("h") if step["op"] == "mdoc_remove" else None

    def op_mdoc_inspect(self, world, step):
        h = self.get_handle(world, step)
        model = h["model"]
        out = world.call(step["sess"], lambda: (len(h["obj"].kept_images()), len(h["obj"].removed_images())))
        world.note("Mdoc kept/removed -> %s" % out.describe())
        if not out.ok:
            raise Violation("mdoc_inspect", "inspect:%s" % out.describe(), "kept_images()/removed_images() raised %r\n%s" % (out.exc, out.tb))
        nrem = len([i for i in model["order"] if i in model["removed"]])
        world.oracle()
        if out.value != (len(model["order"]) - nrem, nrem):
            raise Violation("mdoc_removed", "kept_removed_counts", "the Mdoc object holds %d kept / %d removed images, expected %d / %d" % (
                out.value[0], out.value[1], len(model["order"]) - nrem, nrem))
        self.check_mdoc_obj(world, h["obj"], model, h["t"], "the Mdoc object")
        return []

    def gen_step(self, world, rng):
        sess = rng.pick(self.SESSIONS)
        cfg = world.cfg
        tomos = sorted(world.model["tomos"])
        if not tomos or rng.chance(0.06):
            nt = rng.randrange(1, cfg["max_tomo"] + 1)
            ids = rng.sample(range(1, 400), nt)
            ts = [tsmeta.gen_tomo(rng, tid, rng.randrange(1, cfg["max_img"] + 1)) for tid in ids]
            return {"op": "populate", "tomos": ts, "tlt_fmt": rng.pick(["%.2f", "%.3f", "%8.2f", "%g"]),
                    "gctf_layout": rng.pick([LAYOUT_PLAIN, dict(LAYOUT_PLAIN, eol="\r\n"), dict(LAYOUT_PLAIN, numbered=False, seps=["\t"])])}
        hs = world.session(sess)
        handles = sorted(hs)
        if len(tomos) >= 2 and rng.chance(0.06):
            # a per-tomogram processing result goes missing (job failed, file cleaned up)
            lost = fpath(rng.pick(tomos), rng.pick(["gctf", "ctffind4", "dose"]))
            return {"op": "env.foreign_delete", "path": lost, "targets": [lost]}
        ops = [("mdoc_open", 3), ("load", 5), ("wedge_sg", 3), ("wedge_sg_batch", 3), ("wedge_em_batch", 2),
               ("mdoc_func", 2), ("reread", 2), ("sg_to_em", 2), ("foreign_wedge", 1)]
        if handles:
            ops += [("mdoc_sort", 3), ("mdoc_remove", 3), ("mdoc_write", 4)]
        focus = cfg.get("focus")
        if focus:
            fam = {"mdoc": ("mdoc_", "reread"), "loaders": ("load",), "wedge": ("wedge_", "sg_to_em", "foreign_wedge")}[focus]
            ops = [(o, w * 5 if o.startswith(fam) else w) for o, w in ops]
        edited = [h for h in handles if hs[h]["model"]["removed"]]
        if edited and rng.chance(0.6 if world.model.get("just_removed") in edited else 0.2):
            # an object that carries removals is what gets written next (the interesting state is in flight)
            return {"op": "mdoc_write", "sess": sess, "h": rng.pick(edited), "out": rng.pick([OUTS[0], OUTS[3], None]),
                    "overwrite": rng.chance(0.7), "removed": rng.chance(0.2), "io": True, "hint": {"write": 2, "stat": 2, "any": 6}}
        op = rng.weighted(ops)
        t = rng.pick(tomos)
        nimg = len(world.model["tomos"][t]["tilts"])
        if op == "mdoc_open":
            return {"op": op, "sess": sess, "t": t, "h": self.new_handle(world), "io": True, "hint": {"read": 2, "any": 4}}
        if op == "mdoc_sort":
            return {"op": op, "sess": sess, "h": rng.pick(handles), "reset_z": rng.chance(0.4)}
        if op == "mdoc_remove":
            h = rng.pick(handles)
            m = hs[h]["model"]
            pool = len([i for i in m["order"] if i not in m["removed"]])
            kept_only = rng.chance(0.7)
            if not kept_only:
                pool = len(m["order"])
            if pool == 0:
                return {"op": "mdoc_sort", "sess": sess, "h": h, "reset_z": False}
            k = rng.randrange(1, min(pool, 4) + 1)
            return {"op": op, "sess": sess, "h": h, "idx": rng.sample(range(pool), k), "kept_only": kept_only}
        if op == "mdoc_write":
            return {"op": op, "sess": sess, "h": rng.pick(handles), "out": rng.pick([OUTS[0], OUTS[3], None]),
                    "overwrite": rng.chance(0.6), "removed": rng.chance(0.2), "io": True, "hint": {"write": 2, "stat": 2, "any": 6}}
        if op == "reread":
            return {"op": op, "sess": sess, "path": rng.pick([OUTS[0], OUTS[3]]), "h": self.new_handle(world), "io": True,
                    "hint": {"read": 2, "any": 4}}
        if op == "mdoc_func":
            fn = rng.pick(["remove_images", "sort_mdoc_by_tilt_angles", "get_tilt_angles"])
            st = {"op": op, "sess": sess, "t": t, "fn": fn, "out": rng.pick([None, OUTS[0], OUTS[3]]), "io": True,
                  "hint": {"read": 2, "write": 2, "any": 8}}
            if fn == "remove_images":
                k = rng.randrange(1, min(nimg, 3) + 1)
                st["idx"] = rng.sample(range(nimg), k)
                st["from1"] = rng.chance(0.5)
            if fn == "sort_mdoc_by_tilt_angles":
                st["reset_z"] = rng.chance(0.5)
            if fn == "get_tilt_angles":
                st["out"] = rng.pick([None, ROOT + "/work/angles.tlt"])
            return st
        if op == "load":
            what = rng.pick(["tlt", "dose", "defocus", "dims", "zshift"])
            srcs = {"tlt": ["tlt", "mdoc", "array", "list"], "dose": ["dose", "mdoc", "array"],
                    "defocus": ["gctf", "ctffind4", "array"], "dims": ["dim", "all_dims", "list", "array"],
                    "zshift": ["zshift", "all_zshifts", "number"]}[what]
            return {"op": op, "sess": sess, "t": t, "what": what, "src": rng.pick(srcs), "io": True,
                    "hint": {"read": 2, "any": 4}}
        if op == "foreign_wedge":
            k = rng.randrange(1, len(tomos) + 1)
            return {"op": op, "tomos": rng.sample(tomos, k), "path": rng.pick([OUTS[1], OUTS[4]]),
                    "acq_order": rng.chance(0.7), "px": 2.0}
        if op == "wedge_sg":
            return {"op": op, "sess": sess, "t": t, "tlt": rng.pick(["tlt", "mdoc"]), "ctf": rng.pick([None, "gctf", "ctffind4"]),
                    "dose": rng.pick([None, "dose", "mdoc"]), "dim": rng.pick(["list", "dim"]),
                    "zshift": rng.pick(["number", "zshift"]), "out": rng.pick([None, OUTS[1], OUTS[4]]),
                    "px": rng.pick([1.0, 2.68, 13.48]), "io": True, "hint": {"read": 6, "write": 3, "any": 20}}
        if op == "wedge_sg_batch":
            k = rng.randrange(1, len(tomos) + 1)
            return {"op": op, "sess": sess, "tomos": rng.sample(tomos, k), "list_as": rng.pick(["array", "file", "list"]),
                    "tlt": rng.pick(["tlt", "mdoc"]), "ctf": rng.pick([None, "gctf", "ctffind4"]),
                    "dose": rng.pick([None, "dose", "mdoc"]), "dim": rng.pick(["array4", "format", "single"]),
                    "zshift": rng.pick(["number", "format", "array2"]), "out": rng.pick([None, OUTS[1], OUTS[4]]),
                    "px": rng.pick([1.0, 2.68]), "io": True, "hint": {"read": 10, "write": 3, "any": 40}}
        if op == "wedge_em_batch":
            k = rng.randrange(1, len(tomos) + 1)
            return {"op": op, "sess": sess, "tomos": rng.sample(tomos, k), "list_as": rng.pick(["array", "file"]),
                    "tlt": rng.pick(["tlt", "mdoc"]), "out": rng.pick([None, OUTS[2]]), "io": True,
                    "hint": {"read": 6, "write": 1, "any": 20}}
        return {"op": "sg_to_em", "sess": sess, "src": rng.pick([OUTS[1], OUTS[4]]), "out": OUTS[2], "write": rng.chance(0.7),
                "io": True, "hint": {"read": 2, "write": 1, "any": 8}}

    def gen_recovery(self, world, rng):
        steps = []
        tomos = sorted(world.model["tomos"])
        for p in sorted(world.pending_recovery):
            if p.endswith("out.mdoc") and tomos:
                h = self.new_handle(world)
                steps.append({"op": "populate", "tomos": [world.model["tomos"][tomos[0]]], "tlt_fmt": "%.2f", "gctf_layout": LAYOUT_PLAIN})
                steps.append({"op": "mdoc_open", "sess": "s0", "t": tomos[0], "h": h})
                steps.append({"op": "mdoc_write", "sess": "s0", "h": h, "out": OUTS[0] if p.endswith("/work/out.mdoc") else OUTS[3],
                              "overwrite": True, "removed": False})
                steps.append({"op": "reread", "sess": "s0", "path": OUTS[0] if p.endswith("/work/out.mdoc") else OUTS[3],
                              "h": self.new_handle(world)})
        return steps

    # ------------------------------------------------------------------ truth helpers
    def tomo(self, world, tid):
        t = world.model["tomos"].get(tid)
        if t is None:
            raise Skip()
        return t

    def known_text(self, world, path):
        k = world.known(path)
        return k if isinstance(k, dict) else None

    def inputs_known(self, world, paths):
        for p in paths:
            k = world.known(p)
            if not isinstance(k, dict) or k.get("kind") != "truth":
                return False
        return True

    def defocus_truth(self, t, kind):
        fac = 1e-4
        d1 = [u * fac for u in t["du"]]
        d2 = [v * fac for v in t["dv"]]
        ph = t["phase"] if t["phase"] is not None else [0.0] * len(d1)
        return d1, d2, t["ang"], ph, [(a + b) / 2.0 for a, b in zip(d1, d2)]

    def dose_truth(self, t, src):
        if src == "mdoc":
            return [p + e for p, e in zip(t["prior"], t["exposure"])]
        return [float("%.4f" % (p + e)) for p, e in zip(t["prior"], t["exposure"])]

    def tilt_truth(self, t, src, fmt=None):
        if src == "mdoc":
            return list(t["tilts"])
        fmt = t.get("tlt_fmt", "%.2f")
        return sorted(float(fmt % a) for a in t["tilts"])

    # ------------------------------------------------------------------ execution
    def apply(self, world, step):
        fn = getattr(self, "op_" + step["op"], None)
        if fn is None:
            raise Skip()
        self.on_step(world, step)
        return fn(world, step)

    def op_populate(self, world, step):
        fs = world.fs
        written = []
        world.model["tlt_fmt"] = step["tlt_fmt"]

        def put(path, text, tid, kind):
            fs.put(path, text.encode("ascii"))
            world.mfs[path] = ("known", {"kind": "truth", "tomo": tid, "what": kind})
            world.pending_recovery.pop(path, None)
            written.append(path)

        for t in step["tomos"]:
            tid = t["id"]
            t = dict(t, tlt_fmt=step["tlt_fmt"])
            world.model["tomos"][tid] = t
            fs.mkdir_raw(tdir(tid))
            put(fpath(tid, "mdoc"), tsmeta.mdoc_text(t), tid, "mdoc")
            put(fpath(tid, "tlt"), tsmeta.tlt_text(t, step["tlt_fmt"]), tid, "tlt")
            put(fpath(tid, "dose"), tsmeta.dose_text(t), tid, "dose")
            put(fpath(tid, "gctf"), tsmeta.gctf_text(t, step["gctf_layout"]), tid, "gctf")
            put(fpath(tid, "ctffind4"), tsmeta.ctffind4_text(t), tid, "ctffind4")
            put(fpath(tid, "dim"), "%d %d %d\n" % tuple(t["dims"]), tid, "dim")
            put(fpath(tid, "zshift"), "%s\n" % t["zshift"], tid, "zshift")
        ids = sorted(world.model["tomos"])
        put(DATA + "/dims.txt", "".join("%d %d %d %d\n" % ((i,) + tuple(world.model["tomos"][i]["dims"])) for i in ids), None, "all_dims")
        put(DATA + "/zshifts.txt", "".join("%d %s\n" % (i, world.model["tomos"][i]["zshift"]) for i in ids), None, "all_zshifts")
        world.probes["tomograms_populated"] += len(step["tomos"])
        if any(t["crlf"] for t in step["tomos"]):
            world.probes["crlf_mdoc"] += 1
        return written

    # ----- mdoc objects -----
    def fresh_model(self, t):
        return {"tomo": t["id"], "order": list(t["order"]), "removed": [], "z": {str(img): r for r, img in enumerate(t["order"])}}

    def check_mdoc_obj(self, world, m, model, t, what):
        """the in-memory table: rows in the model's order, removed flags, ZValues, tilt angles, extras"""
        world.oracle()
        imgs = m.imgs
        if len(imgs) != len(model["order"]):
            raise Violation("mdoc_rows", "nrows", "%s: %d images, expected %d" % (what, len(imgs), len(model["order"])))
        tilts = imgs["TiltAngle"].tolist()
        rem = imgs["Removed"].tolist()
        zs = imgs[m.section_id].tolist()
        for pos, img in enumerate(model["order"]):
            if float(tilts[pos]) != t["tilts"][img]:
                raise Violation("mdoc_order", "order", "%s: row %d has TiltAngle %r, expected %r" % (what, pos, tilts[pos], t["tilts"][img]))
            if bool(rem[pos]) != (img in model["removed"]):
                raise Violation("mdoc_removed", "removed_flag", "%s: row %d (tilt %r) Removed=%r, expected %r" % (
                    what, pos, tilts[pos], rem[pos], img in model["removed"]))
            if int(zs[pos]) != model["z"][str(img)]:
                raise Violation("mdoc_zvalue", "zvalue", "%s: row %d ZValue %r, expected %r" % (what, pos, zs[pos], model["z"][str(img)]))
        for key, vals in [("ExposureDose", [tsmeta.fmt_num(v) for v in t["exposure"]]),
                          ("PriorRecordDose", [tsmeta.fmt_num(v) for v in t["prior"]])] + [tuple(e) for e in t["extras"]]:
            if key not in imgs.columns:
                raise Violation("mdoc_columns", "missing:%s" % key, "%s: per-image key %s missing" % (what, key))
            col = imgs[key].tolist()
            for pos, img in enumerate(model["order"]):
                if not tsmeta.same_value(col[pos], vals[img]):
                    raise Violation("mdoc_values", "value:%s" % key, "%s: row %d %s=%r, the file says %r" % (what, pos, key, col[pos], vals[img]))

    def op_mdoc_open(self, world, step):
        t = self.tomo(world, step["t"])
        path = fpath(step["t"], "mdoc")
        judge = self.inputs_known(world, [path])
        out = world.call(step["sess"], ccmdoc.Mdoc, path, faults=step.get("faults", ()))
        world.note("Mdoc(%d) -> %s" % (step["t"], out.describe()))
        if outcome_ack(out) and judge:
            m = out.value
            if getattr(m, "imgs", None) is None:
                raise Violation("mdoc_open", "empty_object", "Mdoc(%s) silently returned an empty object for an existing file" % path)
            model = self.fresh_model(t)
            self.check_mdoc_obj(world, m, model, t, "Mdoc(%s)" % path)
            self.check_header(world, m, t, "Mdoc(%s)" % path)
            world.session(step["sess"])[step["h"]] = {"obj": m, "model": model, "t": dict(t), "path": path}
            world.stats["acks"] += 1
        elif not out.ok and not out.faulted and judge:
            raise Violation("mdoc_open", "open:%s" % out.describe(), "fault-free Mdoc(%s) raised %r\n%s" % (path, out.exc, out.tb))
        return []

    def header_truth(self, t):
        text = tsmeta.mdoc_text(t)
        p = tsmeta.parse_mdoc(text)
        return p["header"], p["titles"]

    def check_header(self, world, m, t, what):
        hdr, titles = self.header_truth(t)
        info = m.project_info
        if sorted(k for k, _ in hdr) != sorted(info.keys()):   # the same entries; their order is not part of the statement
            raise Violation("mdoc_header", "keys", "%s: header keys %r, expected %r" % (what, list(info.keys()), [k for k, _ in hdr]))
        for k, v in hdr:
            if not tsmeta.same_value(info[k], v):
                raise Violation("mdoc_header", "value:%s" % k, "%s: header %s=%r, the file says %r" % (what, k, info[k], v))
        if list(m.titles) != titles:
            raise Violation("mdoc_header", "titles", "%s: titles %r, expected %r" % (what, m.titles, titles))

    def get_handle(self, world, step):
        hs = world.session(step["sess"])
        if step["h"] not in hs:
            raise Skip()
        return hs[step["h"]]

    def op_mdoc_sort(self, world, step):
        h = self.get_handle(world, step)
        out = world.call(step["sess"], h["obj"].sort_by_tilt, reset_z_value=step["reset_z"])
        if not out.ok:
            raise Violation("mdoc_sort", "sort:%s" % out.describe(), "sort_by_tilt raised %r\n%s" % (out.exc, out.tb))
        model = h["model"]
        model["order"] = sorted(model["order"])
        if step["reset_z"]:
            model["z"] = {str(img): pos for pos, img in enumerate(model["order"])}
        self.check_mdoc_obj(world, h["obj"], model, h["t"], "after sort_by_tilt(reset_z_value=%s)" % step["reset_z"])
        world.stats["acks"] += 1
        return []

    def op_mdoc_remove(self, world, step):
        h = self.get_handle(world, step)
        model = h["model"]
        pool = [i for i in model["order"] if i not in model["removed"]] if step["kept_only"] else list(model["order"])
        idx = [i for i in step["idx"] if i < len(pool)]
        if not idx:
            raise Skip()
        out = world.call(step["sess"], h["obj"].remove_images, list(idx), kept_only=step["kept_only"])
        if not out.ok:
            raise Violation("mdoc_remove", "remove:%s" % out.describe(), "remove_images(%r) raised %r\n%s" % (idx, out.exc, out.tb))
        for i in idx:
            if pool[i] not in model["removed"]:
                model["removed"].append(pool[i])
        self.check_mdoc_obj(world, h["obj"], model, h["t"], "after remove_images(%r, kept_only=%s)" % (idx, step["kept_only"]))
        world.stats["acks"] += 1
        return []

    def expected_sections(self, model, removed_flag):
        return [img for img in model["order"] if removed_flag or img not in model["removed"]]

    def check_mdoc_file(self, world, path, model, t, removed_flag, what):
        world.oracle()
        data = world.fs.get(path)
        if data is None:
            raise Violation("file_missing", "mdoc:no_file", "%s: %s does not exist" % (what, path))
        try:
            p = tsmeta.parse_mdoc(data.decode("utf-8"))
        except (ValueError, UnicodeDecodeError) as e:
            raise Violation("mdoc_invalid", "mdoc:invalid", "%s: %s is not a parsable mdoc: %s" % (what, path, e))
        hdr, titles = self.header_truth(t)
        ph, hh = dict(p["header"]), dict(hdr)
        if sorted(ph) != sorted(hh) or len(p["header"]) != len(hdr) or any(not tsmeta.same_value(ph[k], hh[k]) for k in hh):
            raise Violation("mdoc_file_header", "header", "%s: written header %r, expected %r" % (what, p["header"], hdr))
        if p["titles"] != titles:
            raise Violation("mdoc_file_header", "titles", "%s: written titles %r, expected %r" % (what, p["titles"], titles))
        want = self.expected_sections(model, removed_flag)
        if len(p["sections"]) != len(want):
            raise Violation("mdoc_file_sections", "count", "%s: %d image sections written, expected %d (removed images are omitted)" % (
                what, len(p["sections"]), len(want)))
        truth = dict([("ExposureDose", [tsmeta.fmt_num(v) for v in t["exposure"]]),
                      ("PriorRecordDose", [tsmeta.fmt_num(v) for v in t["prior"]])] + [tuple(e) for e in t["extras"]])
        for (ztext, kv), img in zip(p["sections"], want):
            d = dict(kv)
            if "TiltAngle" not in d or float(d["TiltAngle"]) != t["tilts"][img]:
                raise Violation("mdoc_file_sections", "order", "%s: section with TiltAngle %r, expected %r" % (what, d.get("TiltAngle"), t["tilts"][img]))
            if int(ztext) != model["z"][str(img)]:
                raise Violation("mdoc_file_sections", "zvalue", "%s: section ZValue %r, expected %r" % (what, ztext, model["z"][str(img)]))
            for key, vals in truth.items():
                if key not in d or not tsmeta.same_value(d[key], vals[img]):
                    raise Violation("mdoc_file_values", "value:%s" % key, "%s: image tilt %r has %s=%r, expected %r" % (
                        what, t["tilts"][img], key, d.get(key), vals[img]))
            if "Removed" in d:
                raise Violation("mdoc_file_values", "removed_written", "%s: the Removed flag leaked into the file" % what)

    def op_mdoc_write(self, world, step):
        h = self.get_handle(world, step)
        model, t = h["model"], h["t"]
        if step["out"] is None:
            path = self.abspath(world, h["path"])  # Mdoc.write() without a name goes back to the file it was read from
            args = ()
        else:
            path = self.abspath(world, step["out"])
            args = (step["out"],)
        before = world.fs.get(path)
        out = world.call(step["sess"], h["obj"].write, *args, overwrite=step["overwrite"], removed=step["removed"],
                         faults=step.get("faults", ()))
        world.note("Mdoc.write ow=%s -> %s" % (step["overwrite"], out.describe()))
        must_refuse = before is not None and not step["overwrite"]
        if outcome_ack(out):
            if must_refuse:
                raise Violation("overwrite_not_refused", "mdoc:no_refusal", "Mdoc.write(overwrite=False) returned although %s existed" % path)
            secs = self.expected_sections(model, step["removed"])
            fm = {"kind": "mdoc", "t": dict(t), "order": secs, "z": dict(model["z"])}
            world.ack(path, fm)
            self.check_mdoc_file(world, path, model, t, step["removed"], "Mdoc.write")
        elif out.faulted:
            world.indeterminate(path)
        else:
            world.oracle()
            if world.fs.get(path) != before:
                raise Violation("refusal_damaged_target", "mdoc:refusal", "Mdoc.write raised %r but %s changed" % (out.exc, path))
            if must_refuse:
                world.probes["refused_overwrite"] += 1
            else:
                raise Violation("mdoc_write", "write:%s" % out.describe(), "fault-free Mdoc.write to %s raised %r\n%s" % (path, out.exc, out.tb))
        return [path]

    def op_reread(self, world, step):
        path = self.abspath(world, step["path"])
        k = world.known(path)
        judge = isinstance(k, dict) and k.get("kind") == "mdoc"
        out = world.call(step["sess"], ccmdoc.Mdoc, step["path"], faults=step.get("faults", ()))
        world.note("reread -> %s" % out.describe())
        if outcome_ack(out) and judge:
            m = out.value
            if getattr(m, "imgs", None) is None:
                raise Violation("mdoc_open", "empty_object", "Mdoc(%s) silently returned an empty object for an existing file" % path)
            if not k["order"]:
                return []
            model = {"tomo": k["t"]["id"], "order": list(k["order"]), "removed": [], "z": dict(k["z"])}
            self.check_mdoc_obj(world, m, model, k["t"], "re-read of %s" % path)
            self.check_header(world, m, k["t"], "re-read of %s" % path)
            world.session(step["sess"])[step["h"]] = {"obj": m, "model": model, "t": dict(k["t"]), "path": step["path"]}
            world.stats["judged_rereads"] += 1
        elif not out.ok and not out.faulted and judge and k["order"]:
            raise Violation("mdoc_open", "reread:%s" % out.describe(), "fault-free re-read of %s raised %r\n%s" % (path, out.exc, out.tb))
        return []

    def op_mdoc_func(self, world, step):
        t = self.tomo(world, step["t"])
        src = fpath(step["t"], "mdoc")
        judge = self.inputs_known(world, [src])
        fn = step["fn"]
        dst = self.abspath(world, step["out"]) if step["out"] else None
        model = self.fresh_model(t)
        if fn == "remove_images":
            idx = [i for i in step["idx"] if i < len(t["tilts"])]
            if not idx:
                raise Skip()
            given = [i + 1 for i in idx] if step["from1"] else idx
            call = lambda: ccmdoc.remove_images(src, list(given), numbered_from_1=step["from1"], output_file=step["out"])
            for i in idx:
                if model["order"][i] not in model["removed"]:
                    model["removed"].append(model["order"][i])
        elif fn == "sort_mdoc_by_tilt_angles":
            call = lambda: ccmdoc.sort_mdoc_by_tilt_angles(src, reset_z_value=step["reset_z"], output_file=step["out"])
            model["order"] = sorted(model["order"])
            if step["reset_z"]:
                model["z"] = {str(img): pos for pos, img in enumerate(model["order"])}
        else:
            call = lambda: ccmdoc.get_tilt_angles(src, output_file=step["out"])
        out = world.call(step["sess"], call, faults=step.get("faults", ()))
        world.note("%s -> %s" % (fn, out.describe()))
        if outcome_ack(out):
            if judge:
                if fn == "get_tilt_angles":
                    world.oracle()
                    got = [float(v) for v in np.asarray(out.value).tolist()]
                    want = [t["tilts"][img] for img in t["order"]]
                    if got != want:
                        raise Violation("tilt_angles", "get_tilt_angles", "get_tilt_angles returned %r, the mdoc holds %r" % (got[:5], want[:5]))
                    if dst:
                        world.ack(dst, {"kind": "text"})
                        txt = (world.fs.get(dst) or b"").decode()
                        vals = [float(x) for x in txt.split()]
                        if vals != want:
                            raise Violation("tilt_angles", "get_tilt_angles_file", "%s holds %r, expected %r" % (dst, vals[:5], want[:5]))
                else:
                    self.check_mdoc_obj(world, out.value, model, t, fn)
                    if dst:
                        secs = self.expected_sections(model, False)
                        world.ack(dst, {"kind": "mdoc", "t": dict(t), "order": secs, "z": dict(model["z"])})
                        self.check_mdoc_file(world, dst, model, t, False, fn)
                world.stats["acks"] += 1
            elif dst:
                world.indeterminate(dst)
                world.pending_recovery.pop(dst, None)
        elif out.faulted:
            if dst:
                world.indeterminate(dst)
        elif judge:
            raise Violation("mdoc_func", "%s:%s" % (fn, out.describe()), "fault-free %s on %s raised %r\n%s" % (fn, src, out.exc, out.tb))
        return [dst] if dst else []

    # ----- loaders -----
    def op_load(self, world, step):
        t = self.tomo(world, step["t"])
        tid = step["t"]
        what, src = step["what"], step["src"]
        fmt = world.model.get("tlt_fmt", "%.2f")
        inputs = []
        if what == "tlt":
            if src in ("tlt", "mdoc"):
                arg = fpath(tid, src)
                inputs = [arg]
                want = self.tilt_truth(t, src, fmt)
                rel = 1e-6 if src == "tlt" else 0.0
            else:
                vals = list(reversed(t["tilts"]))
                arg = np.array(vals) if src == "array" else list(vals)
                want, rel = vals, 0.0
            call = lambda: ioutils.tlt_load(arg)
            getter = lambda v: [float(x) for x in np.asarray(v).ravel().tolist()]
        elif what == "dose":
            if src in ("dose", "mdoc"):
                arg = fpath(tid, src)
                inputs = [arg]
                want = self.dose_truth(t, src)
                rel = 1e-6
            else:
                want = self.dose_truth(t, "mdoc")
                arg = np.array(want)
                rel = 0.0
            call = lambda: ioutils.total_dose_load(arg)
            getter = lambda v: [float(x) for x in np.asarray(v).ravel().tolist()]
        elif what == "defocus":
            d1, d2, ang, ph, mean = self.defocus_truth(t, src)
            if src in ("gctf", "ctffind4"):
                arg = fpath(tid, src)
                inputs = [arg]
                call = lambda: ioutils.defocus_load(arg, src)
                rel = 1e-5
            else:
                arr = np.column_stack([d1, d2, ang, ph, mean])
                call = lambda: ioutils.defocus_load(arr)
                rel = 0.0
            want = {"defocus1": d1, "defocus2": d2, "astigmatism": ang, "phase_shift": ph, "defocus_mean": mean}
            getter = None
        elif what == "dims":
            if src == "dim":
                arg = fpath(tid, "dim")
                inputs = [arg]
                want = {"x": [t["dims"][0]], "y": [t["dims"][1]], "z": [t["dims"][2]]}
            elif src == "all_dims":
                arg = DATA + "/dims.txt"
                inputs = [arg]
                ids = sorted(world.model["tomos"])
                k = self.known_text(world, arg)
                want = {"tomo_id": [float(i) for i in ids], "x": [world.model["tomos"][i]["dims"][0] for i in ids],
                        "y": [world.model["tomos"][i]["dims"][1] for i in ids], "z": [world.model["tomos"][i]["dims"][2] for i in ids]}
            else:
                arg = list(t["dims"]) if src == "list" else np.array(t["dims"])
                want = {"x": [t["dims"][0]], "y": [t["dims"][1]], "z": [t["dims"][2]]}
            call = lambda: ioutils.dimensions_load(arg)
            rel, getter = 0.0, None
        else:
            if src == "zshift":
                arg = fpath(tid, "zshift")
                inputs = [arg]
                want = {"z_shift": [float(t["zshift"])]}
            elif src == "all_zshifts":
                arg = DATA + "/zshifts.txt"
                inputs = [arg]
                ids = sorted(world.model["tomos"])
                want = {"tomo_id": [float(i) for i in ids], "z_shift": [float(world.model["tomos"][i]["zshift"]) for i in ids]}
            else:
                arg = float(t["zshift"])
                want = {"z_shift": [float(t["zshift"])]}
            call = lambda: ioutils.z_shift_load(arg)
            rel, getter = 0.0, None
        judge = self.inputs_known(world, inputs)
        out = world.call(step["sess"], call, faults=step.get("faults", ()))
        world.note("load %s from %s -> %s" % (what, src, out.describe()))
        name = "%s_load(%s)" % (what, src)
        if outcome_ack(out):
            if judge:
                world.oracle()
                world.stats["acks"] += 1
                if getter is not None:
                    if out.value is None:
                        raise Violation("loader_values", "%s:none" % what, "%s returned None" % name)
                    got = getter(out.value)
                    self.cmp_list(got, want, rel, name, what)
                else:
                    df = out.value
                    for col, vals in want.items():
                        if col not in df.columns:
                            raise Violation("loader_columns", "%s:missing:%s" % (what, col), "%s: column %s missing (%r)" % (name, col, list(df.columns)))
                        self.cmp_list([float(v) for v in df[col].tolist()], vals, rel, "%s column %s" % (name, col), "%s:%s" % (what, col))
        elif not out.faulted and judge:
            raise Violation("loader_raised", "%s:%s:%s" % (what, src, out.describe()), "fault-free %s raised %r\n%s" % (name, out.exc, out.tb))
        return []

    def cmp_list(self, got, want, rel, name, sig):
        if len(got) != len(want):
            raise Violation("loader_values", "%s:length" % sig, "%s returned %d values, the file holds %d" % (name, len(got), len(want)))
        for i, (g, w) in enumerate(zip(got, want)):
            if not close(g, w, rel=max(rel, 1e-12), ab=1e-9 if rel else 0.0):
                raise Violation("loader_values", "%s:value" % sig, "%s: value %d is %r, expected %r" % (name, i, g, w))

    # ----- wedge lists -----
    def wedge_rows(self, world, tid, step, fmt):
        """ground-truth wedge-list rows of one tomogram for the sources named in the step"""
        t = world.model["tomos"][tid]
        tilts = self.tilt_truth(t, step["tlt"], fmt)
        n = len(tilts)
        rows = {"tomo_num": [float(tid)] * n, "pixelsize": [step["px"]] * n, "tomo_x": [t["dims"][0]] * n,
                "tomo_y": [t["dims"][1]] * n, "tomo_z": [t["dims"][2]] * n, "z_shift": [float(t["zshift"])] * n,
                "tilt_angle": tilts, "voltage": [300.0] * n, "amp_contrast": [0.07] * n, "cs": [2.7] * n}
        if step["ctf"]:
            rows["defocus"] = self.defocus_truth(t, step["ctf"])[4]
        if step["dose"]:
            rows["exposure"] = self.dose_truth(t, step["dose"])
        return rows

    def wedge_inputs(self, tid, step):
        ins = [fpath(tid, step["tlt"])]
        if step["ctf"]:
            ins.append(fpath(tid, step["ctf"]))
        if step["dose"]:
            ins.append(fpath(tid, step["dose"]))
        return ins

    def check_wedge_df(self, world, df, rows, what, rel):
        """rows may be a list of per-tomogram row dicts: the statement fixes the rows of each tomogram, not
        the order of the tomograms (a tomogram list read from a file comes back sorted)"""
        if isinstance(rows, list):
            world.oracle()
            total = sum(len(r["tilt_angle"]) for r in rows)
            if len(df) != total:
                raise Violation("wedge_rows", "nrows", "%s: %d rows, expected %d (one per tilt per tomogram)" % (what, len(df), total))
            if "tomo_num" not in df.columns:
                raise Violation("wedge_columns", "missing:tomo_num", "%s: column tomo_num missing" % what)
            by = {r["tomo_num"][0]: r for r in rows if r["tomo_num"]}
            seen = []
            nums = [float(v) for v in df["tomo_num"].tolist()]
            start = 0
            while start < len(nums):
                end = start
                while end < len(nums) and nums[end] == nums[start]:
                    end += 1
                tn = nums[start]
                if tn not in by or tn in seen:
                    raise Violation("wedge_values", "col:tomo_num", "%s: unexpected block for tomogram %r at row %d" % (what, tn, start))
                seen.append(tn)
                self.check_wedge_df(world, df.iloc[start:end], by[tn], what + " tomogram %d" % tn, rel)
                start = end
            if sorted(seen) != sorted(by):
                raise Violation("wedge_values", "col:tomo_num", "%s: tomograms %r, expected %r" % (what, seen, sorted(by)))
            return
        world.oracle()
        n = len(rows["tilt_angle"])
        if len(df) != n:
            raise Violation("wedge_rows", "nrows", "%s: %d rows, expected %d (one per tilt per tomogram)" % (what, len(df), n))
        for col, vals in rows.items():
            if col not in df.columns:
                raise Violation("wedge_columns", "missing:%s" % col, "%s: column %s missing (%r)" % (what, col, list(df.columns)))
            got = [float(v) for v in df[col].tolist()]
            for i in range(n):
                r = 1e-5 if col in ("tilt_angle", "defocus", "exposure") else 1e-9
                if not close(got[i], vals[i], rel=max(r, rel), ab=rel):
                    raise Violation("wedge_values", "col:%s" % col, "%s: row %d %s=%r, expected %r" % (what, i, col, got[i], vals[i]))

    def check_wedge_star(self, world, path, rows, what):
        data = world.fs.get(path)
        if data is None:
            raise Violation("file_missing", "wedge:no_file", "%s: %s does not exist" % (what, path))
        try:
            blocks = starmodel.parse(data.decode("utf-8"))
        except (starmodel.StarFormatError, UnicodeDecodeError) as e:
            raise Violation("star_invalid", "wedge:invalid", "%s: %s is not valid STAR: %s" % (what, path, e))
        if [b["spec"] for b in blocks] != ["data_stopgap_wedgelist"]:
            raise Violation("wedge_file", "block", "%s: blocks %r" % (what, [b["spec"] for b in blocks]))
        b = blocks[0]
        df = pd.DataFrame([[float(x) for x in r] for r in b["rows"]], columns=b["labels"])
        self.check_wedge_df(world, df, rows, what + " (file %s)" % path, 1e-6)

    def concat_rows(self, parts):
        keys = [k for k in parts[0]]
        common = [k for k in keys if all(k in p for p in parts)]
        return {k: sum((p[k] for p in parts), []) for k in common}

    def op_wedge_sg(self, world, step):
        t = self.tomo(world, step["t"])
        tid = step["t"]
        fmt = world.model.get("tlt_fmt", "%.2f")
        inputs = self.wedge_inputs(tid, step)
        dim_arg = list(t["dims"]) if step["dim"] == "list" else fpath(tid, "dim")
        z_arg = float(t["zshift"]) if step["zshift"] == "number" else fpath(tid, "zshift")
        if step["dim"] == "dim":
            inputs.append(fpath(tid, "dim"))
        if step["zshift"] == "zshift":
            inputs.append(fpath(tid, "zshift"))
        judge = self.inputs_known(world, inputs)
        dst = self.abspath(world, step["out"]) if step["out"] else None
        kw = {"tomo_dim": dim_arg, "pixel_size": step["px"], "tlt_file": fpath(tid, step["tlt"]), "z_shift": z_arg,
              "output_file": step["out"]}
        if step["ctf"]:
            kw["ctf_file"] = fpath(tid, step["ctf"])
            kw["ctf_file_type"] = step["ctf"]
        if step["dose"]:
            kw["dose_file"] = fpath(tid, step["dose"])
        out = world.call(step["sess"], wedgeutils.create_wedge_list_sg, tid, faults=step.get("faults", ()), **kw)
        world.note("wedge_sg -> %s" % out.describe())
        return self.finish_wedge(world, step, out, judge, dst, lambda: self.wedge_rows(world, tid, step, fmt), "create_wedge_list_sg")

    def finish_wedge(self, world, step, out, judge, dst, rows_fn, name):
        if outcome_ack(out):
            if judge:
                rows = rows_fn()
                self.check_wedge_df(world, out.value, rows, name, 0.0)
                world.stats["acks"] += 1
                if dst:
                    world.ack(dst, {"kind": "wedge_sg", "rows": rows})
                    self.check_wedge_star(world, dst, rows, name)
            elif dst:
                world.indeterminate(dst)
                world.pending_recovery.pop(dst, None)
        elif out.faulted:
            if dst:
                world.indeterminate(dst)
        elif judge:
            raise Violation("wedge_raised", "%s:%s" % (name, out.describe()), "fault-free %s raised %r\n%s" % (name, out.exc, out.tb))
        return [dst] if dst else []

    def tomo_list_arg(self, world, step, aux):
        ids = step["tomos"]
        if step["list_as"] == "array":
            return np.array(ids)
        if step["list_as"] == "list":
            return list(ids)
        p = ROOT + "/work/tomo_list.txt"
        world.fs.put(p, "".join("%d\n" % i for i in ids).encode())
        world.mfs[p] = ("known", {"kind": "text"})
        aux.append(p)
        return p

    def op_wedge_sg_batch(self, world, step):
        ids = [i for i in step["tomos"] if i in world.model["tomos"]]
        if not ids:
            raise Skip()
        step = dict(step, tomos=ids)
        fmt = world.model.get("tlt_fmt", "%.2f")
        aux = []
        tl = self.tomo_list_arg(world, step, aux)
        inputs = []
        for tid in ids:
            inputs += self.wedge_inputs(tid, step)
        kw = {"pixel_size": step["px"], "tlt_file_format": FORMATS[step["tlt"]], "output_file": step["out"]}
        if step["ctf"]:
            kw["ctf_file_format"] = FORMATS[step["ctf"]]
            kw["ctf_file_type"] = step["ctf"]
        if step["dose"]:
            kw["dose_file_format"] = FORMATS[step["dose"]]
        all_ids = sorted(world.model["tomos"])
        same_dims = len({tuple(world.model["tomos"][i]["dims"]) for i in ids}) == 1
        dim_mode = step["dim"]
        if dim_mode == "single" and not same_dims:
            dim_mode = "array4"
        if dim_mode == "array4":
            kw["tomo_dim"] = np.array([[i] + list(world.model["tomos"][i]["dims"]) for i in all_ids], dtype=float)
        elif dim_mode == "format":
            kw["tomo_dim_file_format"] = FORMATS["dim"]
            inputs += [fpath(i, "dim") for i in ids]
        else:
            kw["tomo_dim"] = list(world.model["tomos"][ids[0]]["dims"])
        same_z = len({world.model["tomos"][i]["zshift"] for i in ids}) == 1
        z_mode = step["zshift"]
        if z_mode == "number" and not same_z:
            z_mode = "array2"
        if z_mode == "array2":
            kw["z_shift"] = np.array([[i, world.model["tomos"][i]["zshift"]] for i in all_ids], dtype=float)
        elif z_mode == "format":
            kw["z_shift_file_format"] = FORMATS["zshift"]
            inputs += [fpath(i, "zshift") for i in ids]
        else:
            kw["z_shift"] = float(world.model["tomos"][ids[0]]["zshift"])
        judge = self.inputs_known(world, inputs)
        if any(self.is_absent(world, p) for p in inputs):
            world.probes["missing_per_tomogram_file_in_batch"] += 1
        dst = self.abspath(world, step["out"]) if step["out"] else None
        out = world.call(step["sess"], wedgeutils.create_wedge_list_sg_batch, tl, faults=step.get("faults", ()), **kw)
        world.note("wedge_sg_batch %d tomos -> %s" % (len(ids), out.describe()))
        rows_fn = lambda: [self.wedge_rows(world, tid, step, fmt) for tid in ids]
        if not judge and out.ok and not out.fired:
            self.check_no_stale_reuse(world, step, out.value, ids, inputs)
        return self.finish_wedge(world, step, out, judge, dst, rows_fn, "create_wedge_list_sg_batch") + aux

    def is_absent(self, world, path):
        m = world.mfs.get(path)
        return m is not None and m[0] == "absent" and world.fs.get(path) is None

    def check_no_stale_reuse(self, world, step, df, ids, inputs):
        """a per-tomogram defocus/dose file is *missing* (removed by the foreign actor) and every other input is
        intact: whatever the batch returns for that tomogram, it must not be another tomogram's numbers"""
        others_ok = all(self.inputs_known(world, [p]) or self.is_absent(world, p) for p in inputs)
        if not others_ok or "tomo_num" not in getattr(df, "columns", []):
            return
        for kind, col in (("ctf", "defocus"), ("dose", "exposure")):
            if not step[kind] or col not in df.columns:
                continue
            for tid in ids:
                if not self.is_absent(world, fpath(tid, step[kind])):
                    continue
                world.oracle()
                vals = df.loc[df["tomo_num"] == tid, col].to_numpy(dtype=float)
                if len(vals) and np.isfinite(vals).any():
                    raise Violation("wedge_values", "stale_input_reused:%s" % col,
                                    "create_wedge_list_sg_batch: the %s file of tomogram %d does not exist, yet its rows carry %s values %r" % (
                                        step[kind], tid, col, vals[:4].tolist()))

    def op_wedge_em_batch(self, world, step):
        ids = [i for i in step["tomos"] if i in world.model["tomos"]]
        if not ids:
            raise Skip()
        step = dict(step, tomos=ids)
        fmt = world.model.get("tlt_fmt", "%.2f")
        aux = []
        tl = self.tomo_list_arg(world, step, aux)
        inputs = [fpath(i, step["tlt"]) for i in ids]
        judge = self.inputs_known(world, inputs)
        dst = self.abspath(world, step["out"]) if step["out"] else None
        out = world.call(step["sess"], wedgeutils.create_wedge_list_em_batch, tl, FORMATS[step["tlt"]], output_file=step["out"],
                         faults=step.get("faults", ()))
        world.note("wedge_em_batch -> %s" % out.describe())
        if outcome_ack(out):
            if judge:
                world.oracle()
                want = []
                for tid in ids:
                    tt = self.tilt_truth(world.model["tomos"][tid], step["tlt"], fmt)
                    want.append([float(tid), f32(min(tt)), f32(max(tt))])
                self.check_em_wedge(world, out.value, want, dst, "create_wedge_list_em_batch")
                world.stats["acks"] += 1
                if dst:
                    world.ack(dst, {"kind": "wedge_em", "rows": want})
            elif dst:
                world.indeterminate(dst)
                world.pending_recovery.pop(dst, None)
        elif out.faulted:
            if dst:
                world.indeterminate(dst)
        elif judge:
            raise Violation("wedge_raised", "em_batch:%s" % out.describe(), "fault-free create_wedge_list_em_batch raised %r\n%s" % (out.exc, out.tb))
        return ([dst] if dst else []) + aux

    def check_em_wedge(self, world, df, want, dst, what):
        got = np.asarray(df.to_numpy(), dtype=float)
        if got.shape != (len(want), 3):
            raise Violation("wedge_em", "shape", "%s: table shape %r, expected %r" % (what, got.shape, (len(want), 3)))
        # the order of the tomograms is not part of the statement: align the expectation with the result
        order = {row[0]: row for row in want}
        if sorted(got[:, 0].tolist()) != sorted(order):
            raise Violation("wedge_em", "tomograms", "%s: tomograms %r, expected %r" % (what, got[:, 0].tolist(), sorted(order)))
        want = [order[v] for v in got[:, 0].tolist()]
        for i, row in enumerate(want):
            for j in range(3):
                if not close(got[i, j], row[j], rel=1e-6):
                    raise Violation("wedge_em", "values", "%s: row %d %r, expected [tomo, min tilt, max tilt] = %r" % (what, i, got[i].tolist(), row))
        if dst:
            data = world.fs.get(dst)
            try:
                em = emmodel.parse(data if data is not None else b"")
            except emmodel.EmFormatError as e:
                raise Violation("wedge_em", "file_invalid", "%s: %s: %s" % (what, dst, e))
            if em["code"] != 5 or em["dims"] != (3, len(want), 1):
                raise Violation("wedge_em", "file_header", "%s: %s has code %d dims %r" % (what, dst, em["code"], em["dims"]))
            arr = em["array"][:, :, 0].T.astype(float)
            for i, row in enumerate(want):
                for j in range(3):
                    if not close(arr[i, j], f32(row[j]), rel=1e-6):
                        raise Violation("wedge_em", "file_values", "%s: %s row %d is %r, expected %r" % (what, dst, i, arr[i].tolist(), row))

    def op_foreign_wedge(self, world, step):
        """a STOPGAP wedge list written by other software, rows per tomogram in acquisition order (tilts not sorted)"""
        ids = [i for i in step["tomos"] if i in world.model["tomos"]]
        if not ids:
            raise Skip()
        path = self.abspath(world, step["path"])
        labels = ["tomo_num", "pixelsize", "tomo_x", "tomo_y", "tomo_z", "z_shift", "tilt_angle", "defocus", "exposure",
                  "voltage", "amp_contrast", "cs"]
        rows, truth = [], {k: [] for k in labels}
        for tid in ids:
            t = world.model["tomos"][tid]
            order = t["order"] if step["acq_order"] else list(range(len(t["tilts"])))
            for img in order:
                vals = [float(tid), step["px"], t["dims"][0], t["dims"][1], t["dims"][2], float(t["zshift"]), t["tilts"][img],
                        (t["du"][img] + t["dv"][img]) / 2e4, t["prior"][img] + t["exposure"][img], 300.0, 0.07, 2.7]
                toks = ["%d" % vals[0]] + ["%.6f" % v for v in vals[1:]]
                rows.append(toks)
                for k, tok in zip(labels, toks):
                    truth[k].append(float(tok))
            if order != sorted(order):
                world.probes["wedge_list_tilts_unsorted"] += 1
        text = starmodel.render([{"spec": "data_stopgap_wedgelist", "labels": labels, "rows": rows}],
                                {"eol": "\n", "numbered": False, "blank_after_labels": 1, "seps": ["  "]})
        world.fs.put(path, text.encode("ascii"))
        world.mfs[path] = ("known", {"kind": "wedge_sg", "rows": truth})
        world.pending_recovery.pop(path, None)
        return [path]

    def op_sg_to_em(self, world, step):
        src = self.abspath(world, step["src"])
        k = world.known(src)
        judge = isinstance(k, dict) and k.get("kind") == "wedge_sg"
        dst = self.abspath(world, step["out"]) if step["write"] else None
        out = world.call(step["sess"], wedgeutils.wedge_list_sg_to_em, step["src"], step["out"], write_out=step["write"],
                         faults=step.get("faults", ()))
        world.note("sg_to_em -> %s" % out.describe())
        if outcome_ack(out):
            if judge:
                world.oracle()
                rows = k["rows"]
                if isinstance(rows, list):
                    rows = self.concat_rows(rows)
                by = {}
                for tn, ta in zip(rows["tomo_num"], rows["tilt_angle"]):
                    by.setdefault(tn, []).append(float("%.6f" % ta) if True else ta)
                want = [[tn, min(v), max(v)] for tn, v in sorted(by.items())]
                self.check_em_wedge(world, out.value, want, dst, "wedge_list_sg_to_em")
                world.stats["acks"] += 1
                if dst:
                    world.ack(dst, {"kind": "wedge_em", "rows": want})
            elif dst:
                world.indeterminate(dst)
                world.pending_recovery.pop(dst, None)
        elif out.faulted:
            if dst:
                world.indeterminate(dst)
        elif judge:
            raise Violation("wedge_raised", "sg_to_em:%s" % out.describe(), "fault-free wedge_list_sg_to_em raised %r\n%s" % (out.exc, out.tb))
        return [dst] if dst else []

    # ------------------------------------------------------------------ shrinking
    def shrink_step(self, step):
        if step["op"] == "populate":
            ts = step["tomos"]
            if len(ts) > 1:
                for i in range(len(ts)):
                    yield dict(step, tomos=ts[:i] + ts[i + 1:])
            for i, t in enumerate(ts):
                if t["extras"]:
                    for j in range(len(t["extras"])):
                        t2 = dict(t, extras=t["extras"][:j] + t["extras"][j + 1:])
                        yield dict(step, tomos=ts[:i] + [t2] + ts[i + 1:])
                if t["crlf"]:
                    yield dict(step, tomos=ts[:i] + [dict(t, crlf=False)] + ts[i + 1:])
                n = len(t["tilts"])
                if n > 1:
                    keep = n // 2
                    t2 = dict(t)
                    for key in ("tilts", "exposure", "prior", "du", "dv", "ang"):
                        t2[key] = t[key][:keep]
                    if t["phase"] is not None:
                        t2["phase"] = t["phase"][:keep]
                    t2["order"] = [i2 for i2 in t["order"] if i2 < keep]
                    t2["extras"] = [[k, v[:keep]] for k, v in t["extras"]]
                    yield dict(step, tomos=ts[:i] + [t2] + ts[i + 1:])
        for k in ("ctf", "dose"):
            if step.get(k):
                yield dict(step, **{k: None})
        if step.get("out"):
            yield dict(step, out=None)
        if step.get("tomos") and step["op"] != "populate" and len(step["tomos"]) > 1:
            yield dict(step, tomos=step["tomos"][:1])

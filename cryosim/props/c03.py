"""C03 - RELION <-> cryoCAT conversion preserves each particle's pose and identity.

Sessions hold particle lists and RelionMotl objects, export them to RELION 3.0/3.1/4.0 tables and
STAR files (name formats, optics on/off, interleaved versions from one object), restart, import
them again (from file and from memory), and run the emmotl2relion / relion2emmotl /
relion2stopgap / stopgap2relion pipelines through files; an independent "RELION" writer drops
particle files with origin shifts in px (3.0) or Angstrom (>= 3.1); faults and crashes are armed
inside the file-touching calls.
Oracle: explicit ZYZ/zxz elementary-matrix convention (models.pose), row model, independent STAR
tokenizer on the durable text.
"""
import math
import re

import numpy as np
import pandas as pd

from ..core import Property, Violation, Skip, outcome_ack, ROOT
from ..gen import MOTL_COLS
from ..models import star as starmodel, pose, em as emmodel

from cryocat import cryomotl

IDX = {c: i for i, c in enumerate(MOTL_COLS)}
PATHS = [ROOT + "/work/a.star", ROOT + "/work/b.star", ROOT + "/data/a.star", "rel.star"]
EMPATHS = [ROOT + "/work/a.em", "rel.em"]
SGPATHS = [ROOT + "/work/sg.star"]
VERSIONS = [3.0, 3.1, 4.0]
FORMATS = {
    3.0: ([("", ""), ("/data/tomo/$xxxx.rec", "/sub/$xxxx/$xxxx_$yyyyy_2.6A.mrc"), ("tomos/$xx_bin4.mrc", "sub/$xxx_$yy.mrc"),
           ("", "sub/$xxx_$yy.mrc")]),
    4.0: ([("", ""), ("TS_$xxx", "TS_$xxx/$yyyy"), ("TS_$xx", "TS_$xx/$y"), ("", "TS_$xxx/$yyyy")]),
}
FORMATS[3.1] = FORMATS[3.0]
TOL_MEM_POS = 1e-9
TOL_MEM_ROT = 1e-7
TOL_FILE_POS = 2.0e-6
TOL_FILE_ROT = 1e-5


def render_name(fmt, tomo, subtomo=None):
    def sub(s, letter, val):
        seqs = sorted(re.findall(r"\$(?:%s)+" % letter, s), key=len)
        if not seqs:
            return s
        longest = seqs[-1]
        return s.replace(longest, str(int(val)).zfill(len(longest) - 1))
    out = fmt
    if subtomo is not None:
        out = sub(out, "y", subtomo)
    out = sub(out, "x", tomo)
    return out


def names_for(version):
    if version <= 3.0:
        return "rlnMicrographName", "rlnImageName", ["rlnOriginX", "rlnOriginY", "rlnOriginZ"], "data_"
    if version == 3.1:
        return "rlnMicrographName", "rlnImageName", ["rlnOriginXAngst", "rlnOriginYAngst", "rlnOriginZAngst"], "data_particles"
    return "rlnTomoName", "rlnTomoParticleName", ["rlnOriginXAngst", "rlnOriginYAngst", "rlnOriginZAngst"], "data_particles"


def gen_particles(rng, n, dup=False):
    """list of dict particle records (the pose model)"""
    ids = rng.sample(range(1, 20 * n + 60), n)
    if dup and n > 1:
        ids[-1] = ids[0]
    parts = []
    style = rng.pick(["int", "frac", "neg"])
    for i in range(n):
        if style == "int":
            x = [float(rng.randrange(1, 2000)) for _ in range(3)]
        elif style == "frac":
            x = [round(rng.uniform(1, 2000), rng.pick([0, 2, 5])) for _ in range(3)]
        else:
            x = [round(rng.uniform(-300, 300), 3) for _ in range(3)]
        sh = rng.pick([[0.0, 0.0, 0.0], [round(rng.uniform(-3, 3), rng.pick([1, 4])) for _ in range(3)],
                       [rng.pick([-0.5, 0.5, 1.5]) for _ in range(3)]])
        parts.append({"x": x, "shift": sh, "ang": pose.random_rotation_angles(rng), "tomo": rng.randrange(1, 400),
                      "cls": rng.randrange(1, 9), "subtomo": ids[i], "object": rng.randrange(1, 30),
                      "score": round(rng.random(), 4)})
    return parts


def parts_to_matrix(parts):
    m = np.zeros((len(parts), 20))
    for i, p in enumerate(parts):
        m[i, IDX["x"]], m[i, IDX["y"]], m[i, IDX["z"]] = p["x"]
        m[i, IDX["shift_x"]], m[i, IDX["shift_y"]], m[i, IDX["shift_z"]] = p["shift"]
        m[i, IDX["phi"]], m[i, IDX["theta"]], m[i, IDX["psi"]] = p["ang"]
        m[i, IDX["tomo_id"]] = p["tomo"]
        m[i, IDX["class"]] = p["cls"]
        m[i, IDX["subtomo_id"]] = p["subtomo"]
        m[i, IDX["object_id"]] = p["object"]
        m[i, IDX["score"]] = p["score"]
    return m


def matrix_to_parts(m):
    parts = []
    for r in np.asarray(m, dtype=float):
        r = np.where(np.isnan(r), 0.0, r)
        parts.append({"x": [r[IDX["x"]], r[IDX["y"]], r[IDX["z"]]],
                      "shift": [r[IDX["shift_x"]], r[IDX["shift_y"]], r[IDX["shift_z"]]],
                      "ang": [r[IDX["phi"]], r[IDX["theta"]], r[IDX["psi"]]], "tomo": r[IDX["tomo_id"]],
                      "cls": r[IDX["class"]], "subtomo": r[IDX["subtomo_id"]], "object": r[IDX["object_id"]],
                      "score": r[IDX["score"]], "geom3": r[IDX["geom3"]]})
    return parts


def pos_of(p):
    return [p["x"][k] + p["shift"][k] for k in range(3)]


class C03(Property):
    ID = "C03"
    SESSIONS = ["s0", "s1"]
    RUNS = {"quick": (4000, 3000), "thorough": (80000, 60000)}
    MUST_REACH = {"probes": ["foreign_relion_3.0", "foreign_relion_3.1", "foreign_relion_4.0", "foreign_no_origin_columns", "foreign_df_nondefault_index", "interleaved_version_export", "memory_roundtrip", "stopgap_relion_pipeline", "reordered_before_original_export", "recovery_after_fault"], "faults": ["crash", "enospc", "eio_read", "short_read", "eintr", "open_fail"]}

    def config(self, rng, tier, faulty):
        cfg = {
            "max_steps": rng.pick([4, 6, 9]),
            "max_rows": rng.pick([1, 3, 8, 20] if tier == "quick" else [1, 3, 8, 20, 300]),
            "env_rate": rng.pick([0.05, 0.15]),
            "env_kinds": ["env.restart", "env.restart", "env.foreign_put", "env.cwd"],
            "fault_rate": 0.0, "fault_kinds": [],
        }
        if faulty:
            kinds = ["enospc", "eio_write", "eio_read", "short_write", "short_read", "eintr", "crash", "open_fail",
                     "toctou"]
            rng.shuffle(kinds)
            cfg["fault_kinds"] = sorted(kinds[: rng.randrange(1, len(kinds) + 1)])
            cfg["fault_rate"] = rng.pick([0.3, 0.5])
            cfg["env_kinds"] = cfg["env_kinds"] + rng.pick([[], ["env.capacity", "env.heal"],
                                                            ["env.handle_budget", "env.heal"], ["env.foreign_delete"]])
        return cfg

    def init(self, world):
        world.fs.mkdir_raw(ROOT + "/data")
        world.fs.mkdir_raw(ROOT + "/elsewhere")
        world.model["n"] = 0

    def paths(self, world):
        return [self.abspath(world, p) for p in PATHS + EMPATHS]

    def new_handle(self, world):
        world.model["n"] += 1
        return "h%d" % world.model["n"]

    # ------------------------------------------------------------------ generation
    def gen_aftermath(self, world, step, rng):
        """a write of a list failed: the list object is still in the caller's hands and is exported again"""
        if rng.chance(0.5):
            yield from Property.gen_aftermath(self, world, step, rng)      # the plain retry
        hs = world.session(step.get("sess")) if step.get("sess") else {}
        src = step.get("src")
        if src in hs and hs[src].get("kind") == "rln":
            v = rng.pick(VERSIONS)
            tf, sf = rng.pick(FORMATS[v])
            yield {"op": "export_df", "sess": step["sess"], "src": src, "h": self.new_handle(world), "version": v,
                   "override": False, "tomo_format": tf, "subtomo_format": sf}

    def gen_step(self, world, rng):
        sess = rng.pick(self.SESSIONS)
        hs = world.session(sess)
        motls = sorted(h for h in hs if hs[h]["kind"] == "rln")
        tables = sorted(h for h in hs if hs[h]["kind"] == "rdf")
        cfg = world.cfg
        ops = [("new", 3), ("import", 4), ("foreign_relion", 3), ("foreign_df", 2), ("relion2emmotl", 1), ("relion2stopgap", 1)]
        if motls:
            ops += [("export_df", 4), ("write", 4), ("emmotl2relion", 2), ("stopgap_roundtrip", 1)]
        imported = sorted(h for h in motls if hs[h].get("imported"))
        if imported:
            ops += [("export_original", 5)]
        if tables:
            ops += [("import_df", 3)]
        op = rng.weighted(ops)
        v = rng.pick(VERSIONS)
        if op == "new":
            n = rng.randrange(1, cfg["max_rows"] + 1)
            return {"op": "new", "sess": sess, "h": self.new_handle(world), "parts": gen_particles(rng, n, rng.chance(0.05)),
                    "version": rng.pick(VERSIONS + [None]), "pixel_size": rng.pick([1.0, 2.6, 0.834, 10.0])}
        if op == "export_df":
            tf, sf = rng.pick(FORMATS[v])
            return {"op": "export_df", "sess": sess, "src": rng.pick(motls), "h": self.new_handle(world),
                    "version": v, "override": rng.chance(0.4), "tomo_format": tf, "subtomo_format": sf}
        if op == "write":
            tf, sf = rng.pick(FORMATS[v])
            return {"op": "write", "sess": sess, "src": rng.pick(motls), "path": rng.pick(PATHS), "version": v,
                    "override": rng.chance(0.3), "tomo_format": tf, "subtomo_format": sf,
                    "optics": rng.chance(0.5), "io": True, "hint": {"write": 4, "any": 10}}
        if op == "import":
            return {"op": "import", "sess": sess, "path": rng.pick(PATHS), "h": self.new_handle(world),
                    "hint_version": rng.chance(0.3), "give_px": rng.chance(0.4),
                    "api": rng.pick(["RelionMotl", "Motl.load"]), "io": True, "hint": {"read": 2, "any": 5}}
        if op == "import_df":
            return {"op": "import_df", "sess": sess, "src": rng.pick(tables), "h": self.new_handle(world),
                    "hint_version": rng.chance(0.5)}
        if op == "export_original":
            return {"op": "export_original", "sess": sess, "src": rng.pick(imported), "reorder": rng.chance(0.6)}
        if op == "foreign_relion":
            n = rng.randrange(1, cfg["max_rows"] + 1)
            return {"op": "foreign_relion", "path": rng.pick(PATHS), "version": v, "parts": gen_particles(rng, n),
                    "origins": None if rng.chance(0.12) else [[round(rng.uniform(-20, 20), 3) for _ in range(3)] for _ in range(n)],
                    "px": rng.pick([1.0, 2.6, 0.834, 13.48]), "subset": rng.pick([None, "parity", "one"]),
                    "crlf": rng.chance(0.15), "numbered": rng.chance(0.8), "extra_cols": rng.chance(0.5)}
        if op == "foreign_df":
            n = rng.randrange(1, cfg["max_rows"] + 1)
            style = rng.pick(["default", "shuffled", "gaps", "shifted"])
            idx = None
            if style == "shuffled":
                idx = rng.perm(n)
            elif style == "gaps":
                idx = sorted(rng.sample(range(3 * n + 2), n))
            elif style == "shifted":
                idx = [i + 5 for i in range(n)]
            return {"op": "foreign_df", "sess": sess, "version": v, "parts": gen_particles(rng, n),
                    "origins": None if rng.chance(0.12) else [[round(rng.uniform(-20, 20), 3) for _ in range(3)] for _ in range(n)],
                    "px": rng.pick([1.0, 2.6, 0.834, 13.48]), "subset": rng.pick([None, "parity", "one"]),
                    "extra_cols": rng.chance(0.5), "index": idx, "again": rng.chance(0.35)}
        if op == "emmotl2relion":
            tf, sf = rng.pick(FORMATS[v])
            return {"op": "emmotl2relion", "sess": sess, "src": rng.pick(motls), "out": rng.pick([None] + PATHS),
                    "version": v, "tomo_format": tf, "subtomo_format": sf, "pixel_size": rng.pick([1.0, 2.6, 7.5]),
                    "optics": rng.chance(0.5) and v >= 3.1, "h": self.new_handle(world), "io": True,
                    "hint": {"write": 4, "any": 10}}
        if op == "relion2emmotl":
            return {"op": "relion2emmotl", "sess": sess, "path": rng.pick(PATHS), "out": rng.pick([None] + EMPATHS),
                    "update": rng.chance(0.3), "h": self.new_handle(world), "io": True,
                    "hint": {"read": 2, "write": 1, "any": 8}}
        if op == "relion2stopgap":
            return {"op": "relion2stopgap", "sess": sess, "path": rng.pick(PATHS), "out": rng.pick([None] + SGPATHS),
                    "h": self.new_handle(world), "io": True, "hint": {"read": 2, "write": 2, "any": 8}}
        tf, sf = rng.pick(FORMATS[v])
        return {"op": "stopgap_roundtrip", "sess": sess, "src": rng.pick(motls), "sg": SGPATHS[0], "out": rng.pick(PATHS),
                "version": v, "tomo_format": tf, "subtomo_format": sf, "h": self.new_handle(world), "io": True,
                "hint": {"read": 2, "write": 3, "any": 14}}

    def gen_recovery(self, world, rng):
        steps = []
        for p in sorted(world.pending_recovery):
            if not p.endswith(".star") or p.endswith("sg.star"):
                continue
            h = self.new_handle(world)
            v = rng.pick(VERSIONS)
            tf, sf = FORMATS[v][1]
            steps.append({"op": "new", "sess": "s0", "h": h, "parts": gen_particles(rng, rng.randrange(1, 5)),
                          "version": v, "pixel_size": 2.0})
            steps.append({"op": "write", "sess": "s0", "src": h, "path": p, "version": v, "override": False,
                          "tomo_format": tf, "subtomo_format": sf, "optics": v >= 3.1})
            steps.append({"op": "import", "sess": "s0", "path": p, "h": self.new_handle(world), "hint_version": False,
                          "give_px": False, "api": "RelionMotl"})
        return steps

    # ------------------------------------------------------------------ oracle helpers
    def check_export_table(self, world, rdf, parts, version, tf, sf, what, tol_pos, tol_rot, px=None):
        """rdf: dict column -> list (from a DataFrame or from STAR tokens)"""
        world.oracle()
        tomo_name, sub_name, origin_names, _spec = names_for(version)
        n = len(parts)
        need = ["rlnCoordinateX", "rlnCoordinateY", "rlnCoordinateZ", "rlnAngleRot", "rlnAngleTilt", "rlnAnglePsi",
                "rlnClassNumber", tomo_name, sub_name] + origin_names
        for c in need:
            if c not in rdf:
                raise Violation("export_columns", "missing:%s" % c, "%s: column %s missing from the RELION %.1f table" % (
                    what, c, version))
            if len(rdf[c]) != n:
                raise Violation("export_rows", "nrows", "%s: %d rows, expected %d" % (what, len(rdf[c]), n))
        for i, p in enumerate(parts):
            want = pos_of(p)
            for k, ax in enumerate("XYZ"):
                g = float(rdf["rlnCoordinate" + ax][i])
                if not abs(g - want[k]) <= tol_pos * max(1.0, abs(want[k])):
                    raise Violation("export_coordinate", "coord", "%s: particle %d rlnCoordinate%s=%r, complete position is %r" % (
                        what, i, ax, g, want[k]))
                o = float(rdf[origin_names[k]][i])
                if abs(o) > 1e-12:
                    raise Violation("export_origin", "origin_nonzero", "%s: particle %d %s=%r, expected 0" % (
                        what, i, origin_names[k], o))
            Rrel = pose.R_relion(float(rdf["rlnAngleRot"][i]), float(rdf["rlnAngleTilt"][i]), float(rdf["rlnAnglePsi"][i]))
            Rp = pose.R_particle(*p["ang"])
            err = pose.rot_err(Rrel @ Rp, np.eye(3))
            if not err <= tol_rot:
                raise Violation("export_rotation", "not_inverse", "%s: particle %d ZYZ(%r,%r,%r) is not the inverse of zxz%r (err %.3g)" % (
                    what, i, rdf["rlnAngleRot"][i], rdf["rlnAngleTilt"][i], rdf["rlnAnglePsi"][i], tuple(p["ang"]), err))
            if float(rdf["rlnClassNumber"][i]) != float(p["cls"]):
                raise Violation("export_class", "class", "%s: particle %d class %r, expected %r" % (what, i, rdf["rlnClassNumber"][i], p["cls"]))
            tn = render_name(tf, p["tomo"]) if tf else None
            got_t = rdf[tomo_name][i]
            if tn is None:
                if float(got_t) != float(int(p["tomo"])):
                    raise Violation("export_tomo", "tomo", "%s: particle %d %s=%r, tomogram number is %r" % (what, i, tomo_name, got_t, p["tomo"]))
            elif str(got_t) != tn:
                raise Violation("export_tomo", "tomo_name", "%s: particle %d %s=%r, expected %r" % (what, i, tomo_name, got_t, tn))
            sn = render_name(sf, p["tomo"], p["subtomo"]) if sf else None
            got_s = rdf[sub_name][i]
            if sn is None:
                if float(got_s) != float(int(p["subtomo"])):
                    raise Violation("export_subtomo", "subtomo", "%s: particle %d %s=%r, subtomogram number is %r" % (what, i, sub_name, got_s, p["subtomo"]))
            elif str(got_s) != sn:
                raise Violation("export_subtomo", "subtomo_name", "%s: particle %d %s=%r, expected %r" % (what, i, sub_name, got_s, sn))
            if "rlnRandomSubset" in rdf:
                hs = float(rdf["rlnRandomSubset"][i])
                want_hs = 1.0 if int(p["subtomo"]) % 2 == 1 else 2.0
                if hs != want_hs:
                    raise Violation("export_halfset", "halfset", "%s: particle %d subtomo %r has rlnRandomSubset %r, expected %r" % (
                        what, i, p["subtomo"], hs, want_hs))

    def expected_import(self, content, eff_version, px_arg):
        """what importing a RELION table with known content must give: list of particle records"""
        parts = []
        n = len(content["coord"])
        px = px_arg
        if px is None:
            if content.get("pixel_col") is not None:
                px = content["pixel_col"]
            elif content.get("optics_px") is not None:
                px = content["optics_px"]
            else:
                px = 1.0
        subset = content.get("subset")
        raw_sub = list(content["subtomo"])
        sub = list(raw_sub)
        if len(set(raw_sub)) != len(raw_sub):
            sub = list(range(1, n + 1))
        parity_only = False
        if subset is not None and len(set(subset)) == 2:
            parity_only = True
        for i in range(n):
            sh = []
            for k in range(3):
                o = content["origin"][i][k]
                s = -o
                if eff_version >= 3.1:
                    s = s / px
                sh.append(s)
            Rp = np.asarray(content["R_rel"][i]).T
            parts.append({"x": list(content["coord"][i]), "shift": sh, "R": Rp, "tomo": content["tomo"][i],
                          "cls": content["cls"][i], "geom3": raw_sub[i],
                          "subtomo": None if parity_only else sub[i],
                          "parity": (int(subset[i]) % 2) if parity_only else None})
        return parts

    def check_import(self, world, df, exp, what, tol_pos, tol_rot):
        world.oracle()
        if len(df) != len(exp):
            raise Violation("import_rows", "nrows", "%s: %d particles, expected %d" % (what, len(df), len(exp)))
        cols = {c: df[c].to_numpy(dtype=float) for c in ("x", "y", "z", "shift_x", "shift_y", "shift_z", "phi", "theta",
                                                         "psi", "tomo_id", "class", "subtomo_id", "geom3")}
        for i, p in enumerate(exp):
            for k, ax in enumerate("xyz"):
                g = cols[ax][i]
                if not abs(g - p["x"][k]) <= tol_pos * max(1.0, abs(p["x"][k])):
                    raise Violation("import_coordinate", "coord", "%s: particle %d %s=%r, rlnCoordinate is %r" % (what, i, ax, g, p["x"][k]))
                s = cols["shift_" + ax][i]
                if not abs(s - p["shift"][k]) <= tol_pos * max(1.0, abs(p["shift"][k])) * 2:
                    raise Violation("import_shift", "shift", "%s: particle %d shift_%s=%r, expected %r (-origin, / pixel size from 3.1 on)" % (
                        what, i, ax, s, p["shift"][k]))
            Rg = pose.R_particle(cols["phi"][i], cols["theta"][i], cols["psi"][i])
            err = pose.rot_err(Rg, p["R"])
            if not err <= tol_rot:
                raise Violation("import_rotation", "not_inverse", "%s: particle %d orientation zxz(%r,%r,%r) is not the inverse of the RELION rotation (err %.3g)" % (
                    what, i, cols["phi"][i], cols["theta"][i], cols["psi"][i], err))
            if cols["tomo_id"][i] != float(p["tomo"]):
                raise Violation("import_tomo", "tomo", "%s: particle %d tomo_id %r, expected %r" % (what, i, cols["tomo_id"][i], p["tomo"]))
            if cols["class"][i] != float(p["cls"]):
                raise Violation("import_class", "class", "%s: particle %d class %r, expected %r" % (what, i, cols["class"][i], p["cls"]))
            if cols["geom3"][i] != float(p["geom3"]):
                raise Violation("import_subtomo", "geom3", "%s: particle %d geom3 %r, subtomogram number in the name is %r" % (
                    what, i, cols["geom3"][i], p["geom3"]))
            if p["subtomo"] is not None and cols["subtomo_id"][i] != float(p["subtomo"]):
                raise Violation("import_subtomo", "subtomo_id", "%s: particle %d subtomo_id %r, expected %r" % (
                    what, i, cols["subtomo_id"][i], p["subtomo"]))
            if p["parity"] is not None and int(cols["subtomo_id"][i]) % 2 != p["parity"]:
                raise Violation("import_halfset", "parity", "%s: particle %d subtomo_id %r but half-set parity %r" % (
                    what, i, cols["subtomo_id"][i], p["parity"]))
        ids = cols["subtomo_id"].tolist()
        if len(set(ids)) != len(ids):
            raise Violation("import_subtomo", "not_unique", "%s: subtomo_id values are not unique: %r" % (what, ids[:10]))

    def content_from_parts(self, parts, version, px, optics, via_file):
        """model of what a cryoCAT export of `parts` holds (used as ModelFS value / in-memory table content)"""
        R_rel = [pose.R_particle(*p["ang"]).T for p in parts]
        return {"kind": "rln", "version": version, "coord": [pos_of(p) for p in parts],
                "origin": [[0.0, 0.0, 0.0] for _ in parts], "R_rel": R_rel, "tomo": [int(p["tomo"]) for p in parts],
                "cls": [p["cls"] for p in parts], "subtomo": [int(p["subtomo"]) for p in parts],
                "subset": [1 if int(p["subtomo"]) % 2 == 1 else 2 for p in parts],
                "pixel_col": px if version < 4.0 else None, "optics_px": px if (optics and version >= 3.1) else None,
                "via_file": via_file}

    def table_from_star(self, data, version_spec=None):
        blocks = starmodel.parse(data.decode("utf-8"))
        specs = [b["spec"] for b in blocks]
        pb = None
        for s in ("data_particles", "data_"):
            if s in specs:
                pb = blocks[specs.index(s)]
                break
        if pb is None:
            raise starmodel.StarFormatError("no particle block in %r" % specs)
        rdf = {lab: [row[ci] for row in pb["rows"]] for ci, lab in enumerate(pb["labels"])}
        ob = blocks[specs.index("data_optics")] if "data_optics" in specs else None
        return pb["spec"], rdf, ob

    # ------------------------------------------------------------------ execution
    def apply(self, world, step):
        fn = getattr(self, "op_" + step["op"], None)
        if fn is None:
            raise Skip()
        return fn(world, step)

    def op_new(self, world, step):
        sess = world.session(step["sess"])
        parts = step["parts"]
        df = pd.DataFrame(parts_to_matrix(parts), columns=MOTL_COLS)
        kw = {"binning": 1.0}
        if step["version"] is not None:
            kw["version"] = step["version"]
        if step["pixel_size"] is not None:
            kw["pixel_size"] = step["pixel_size"]
        out = world.call(step["sess"], cryomotl.RelionMotl, df, **kw)
        if not out.ok:
            raise Violation("construct_raised", "new:%s" % out.describe(), "RelionMotl(table, %r) raised %r\n%s" % (kw, out.exc, out.tb))
        sess[step["h"]] = {"kind": "rln", "obj": out.value, "parts": parts, "version": step["version"],
                           "px": step["pixel_size"], "binning": 1.0, "px_scalar": True}
        return []

    def eff_version(self, h, step):
        """the version an export uses: explicit override, else the object's, else the default 3.1"""
        if step.get("override"):
            return step["version"]
        return h["version"] if h["version"] is not None else 3.1

    def op_export_df(self, world, step):
        sess = world.session(step["sess"])
        if step["src"] not in sess or sess[step["src"]]["kind"] != "rln":
            raise Skip()
        h = sess[step["src"]]
        v = self.eff_version(h, step)
        tf, sf = step["tomo_format"], step["subtomo_format"]
        if (v >= 4.0) != (step["version"] >= 4.0):  # the name formats were drawn for the other family
            tf, sf = FORMATS[v][1]
        kw = {"tomo_format": tf, "subtomo_format": sf}
        if step.get("override"):
            kw["version"] = v
        out = world.call(step["sess"], h["obj"].create_relion_df, **kw)
        world.note("export_df v=%s -> %s" % (v, out.describe()))
        if not out.ok:
            raise Violation("export_raised", "export_df:%s" % out.describe(),
                            "create_relion_df(%r) of a %d-particle list raised %r\n%s" % (kw, len(h["parts"]), out.exc, out.tb))
        if h["version"] is None:
            h["version"] = 3.1  # create_relion_df documents that an unset version becomes 3.1
        rdf = {c: out.value[c].tolist() for c in out.value.columns}
        self.check_export_table(world, rdf, h["parts"], v, tf, sf, "create_relion_df(version=%s)" % v, TOL_MEM_POS, TOL_MEM_ROT)
        world.stats["acks"] += 1
        if v != (h["version"] or 3.1):
            world.probes["interleaved_version_export"] += 1
        px = h["px"] if h["px"] is not None else 1.0
        sess[step["h"]] = {"kind": "rdf", "obj": out.value, "version": v,
                           "content": self.content_from_parts(h["parts"], v, px, False, False)}
        return []

    def op_export_original(self, world, step):
        """a list imported from a RELION file, possibly re-ordered since (drop_duplicates sorts by subtomogram
        number), exported with the entries of the original file: every row must still pair a particle's pose
        with *its own* subtomogram / tomogram name"""
        sess = world.session(step["sess"])
        if step["src"] not in sess or not sess[step["src"]].get("imported"):
            raise Skip()
        h = sess[step["src"]]
        obj = h["obj"]
        if step["reorder"]:
            out = world.call(step["sess"], obj.drop_duplicates)
            if not out.ok:
                raise Violation("export_raised", "drop_duplicates:%s" % out.describe(), "drop_duplicates raised %r" % (out.exc,))
            order = sorted(range(len(h["parts"])), key=lambda i: h["parts"][i]["subtomo"])
            if order != list(range(len(order))):
                world.probes["reordered_before_original_export"] += 1
            h["parts"] = [h["parts"][i] for i in order]
        out = world.call(step["sess"], obj.create_relion_df, use_original_entries=True)
        world.note("export_original -> %s" % out.describe())
        if not out.ok:
            raise Violation("export_raised", "export_original:%s" % out.describe(),
                            "create_relion_df(use_original_entries=True) of an imported list raised %r\n%s" % (out.exc, out.tb))
        world.oracle()
        rdf = out.value
        v = h["version"] if h["version"] is not None else 3.1
        _tn, sub_name, _on, _spec = names_for(v)
        n = len(h["parts"])
        if len(rdf) != n:
            raise Violation("export_rows", "nrows", "export with original entries: %d rows for %d particles" % (len(rdf), n))
        for i, p in enumerate(h["parts"]):
            want = pos_of(p)
            for k, ax in enumerate("XYZ"):
                g = float(rdf["rlnCoordinate" + ax].iloc[i])
                if not abs(g - want[k]) <= 1e-6 * max(1.0, abs(want[k])):
                    raise Violation("export_coordinate", "original_entries:coord", "export with original entries: row %d rlnCoordinate%s=%r, particle position %r" % (i, ax, g, want[k]))
            if sub_name in rdf.columns:
                name = rdf[sub_name].iloc[i]
                try:
                    num = float(name)
                except (TypeError, ValueError):
                    comp = str(name).rsplit("/", 1)[-1]
                    nums = re.findall(r"\d+", comp)
                    num = float(comp) if v >= 4.0 else float(nums[1])
                if num != float(p.get("geom3", p["subtomo"])):
                    raise Violation("export_subtomo", "original_entries:identity",
                                    "export with original entries: row %d carries the pose of subtomogram %r but the name %r (subtomogram %r)" % (
                                        i, p.get("geom3", p["subtomo"]), name, num))
        world.stats["acks"] += 1
        return []

    def op_write(self, world, step):
        sess = world.session(step["sess"])
        if step["src"] not in sess or sess[step["src"]]["kind"] != "rln":
            raise Skip()
        h = sess[step["src"]]
        path = self.abspath(world, step["path"])
        v = self.eff_version(h, step)
        override = bool(step.get("override")) and v != (h["version"] if h["version"] is not None else 3.1)
        tf, sf = step["tomo_format"], step["subtomo_format"]
        if (v >= 4.0) != (step["version"] >= 4.0):
            tf, sf = FORMATS[v][1]
        # an optics block needs one scalar pixel size, and for RELION >= 4 a binning: objects loaded from a
        # file carry neither by construction (binning unset, per-particle pixel sizes) - the suite pins the
        # TypeError of create_optics_group_v4(binning=None) - so those combinations are outside the quantifier
        optics = (step["optics"] and v >= 3.1 and h.get("px_scalar", True)
                  and (v < 4.0 or h.get("binning") is not None))
        objv = v
        kw = {"write_optics": optics, "tomo_format": tf, "subtomo_format": sf}
        if step.get("override"):
            kw["version"] = v
        out = world.call(step["sess"], h["obj"].write_out, step["path"], faults=step.get("faults", ()), **kw)
        world.note("write v=%s optics=%s -> %s" % (v, optics, out.describe()))
        if out.ok and h["version"] is None:
            h["version"] = 3.1
        if outcome_ack(out):
            px = h["px"] if h["px"] is not None else 1.0
            content = self.content_from_parts(h["parts"], v, px, optics, True)
            if override:
                world.probes["write_version_override"] += 1
            world.ack(path, content)
            self.check_star_file(world, path, h["parts"], v, objv, tf, sf, optics, px)
        elif out.faulted:
            world.indeterminate(path)
        else:
            raise Violation("write_raised", "write:%s" % out.describe(),
                            "fault-free RelionMotl.write_out(%r) raised %r\n%s" % (kw, out.exc, out.tb))
        return [path]

    def check_star_file(self, world, path, parts, v, objv, tf, sf, optics, px):
        data = world.fs.get(path)
        if data is None:
            raise Violation("file_missing", "write:no_file", "%s missing after an acknowledged write" % path)
        try:
            spec, rdf, ob = self.table_from_star(data)
        except (starmodel.StarFormatError, UnicodeDecodeError) as e:
            raise Violation("star_invalid", "write:invalid", "%s is not a valid RELION STAR file: %s" % (path, e))
        want_spec = names_for(objv)[3]
        if spec != want_spec:
            raise Violation("file_block", "write:specifier", "%s: particle block %r, expected %r for RELION %.1f" % (path, spec, want_spec, objv))
        if optics and ob is None:
            raise Violation("file_optics", "write:no_optics", "%s: optics block requested but missing" % path)
        if not optics and ob is not None:
            raise Violation("file_optics", "write:unexpected_optics", "%s: optics block written although switched off" % path)
        if ob is not None and "rlnImagePixelSize" in ob["labels"]:
            tok = ob["rows"][0][ob["labels"].index("rlnImagePixelSize")]
            if abs(float(tok) - px) > 1e-6 * max(1, px):
                raise Violation("file_optics", "write:pixel_size", "%s: optics pixel size %r, expected %r" % (path, tok, px))
        self.check_export_table(world, rdf, parts, v, tf, sf, "file %s" % path, TOL_FILE_POS, TOL_FILE_ROT)

    def file_version(self, content):
        return content["version"]

    def op_import(self, world, step):
        sess = world.session(step["sess"])
        path = self.abspath(world, step["path"])
        known = world.known(path)
        kw = {}
        judge = known is not None and known.get("kind") == "rln"
        if judge:
            fv = known["version"] if not known.get("mixed") else None
            if step["hint_version"] and fv is not None:
                kw["version"] = fv
            if step["give_px"] and known.get("true_px") is not None:
                kw["pixel_size"] = known["true_px"]
        api = step["api"] if not kw else "RelionMotl"

        def do():
            if api == "RelionMotl":
                return cryomotl.RelionMotl(step["path"], **kw)
            return cryomotl.Motl.load(step["path"], "relion")

        out = world.call(step["sess"], do, faults=step.get("faults", ()))
        world.note("import %s %r -> %s" % (api, sorted(kw), out.describe()))
        if outcome_ack(out):
            df = out.value.df
            if judge:
                if known.get("mixed"):
                    self.check_pose_only(world, df, known, "import of %s" % path)
                else:
                    exp = self.expected_import(known, known["version"], kw.get("pixel_size"))
                    self.check_import(world, df, exp, "%s(%s)" % (api, path), TOL_FILE_POS, TOL_FILE_ROT)
                world.stats["judged_imports"] += 1
            try:
                if len(df) == 0:
                    raise ValueError("an empty list (e.g. read from a torn file) is outside the quantifier: not kept as a handle")
                m = np.column_stack([df[c].to_numpy(dtype=float) for c in MOTL_COLS]).reshape(len(df), 20)
                sess[step["h"]] = {"kind": "rln", "obj": out.value, "parts": matrix_to_parts(m),
                                   "version": float(out.value.version) if out.value.version is not None else None,
                                   "px": None, "binning": None, "px_scalar": np.ndim(out.value.pixel_size) == 0,
                                   "imported": True}
                px = out.value.pixel_size
                if isinstance(px, (int, float)):
                    sess[step["h"]]["px"] = float(px)
                elif px is not None and np.ndim(px) >= 1 and len(np.unique(np.asarray(px, dtype=float))) == 1:
                    sess[step["h"]]["px"] = float(np.asarray(px, dtype=float).ravel()[0])
                else:
                    sess.pop(step["h"])
            except Exception:
                sess.pop(step["h"], None)
        elif not out.faulted and judge:
            raise Violation("import_raised", "import:%s" % out.describe(),
                            "fault-free %s of a RELION file with acknowledged content raised %r\n%s" % (api, out.exc, out.tb))
        return []

    def check_pose_only(self, world, df, content, what):
        world.oracle()
        n = len(content["coord"])
        if len(df) != n:
            raise Violation("import_rows", "nrows", "%s: %d particles, expected %d" % (what, len(df), n))
        for i in range(n):
            for k, ax in enumerate("xyz"):
                g = float(df[ax].iloc[i]) + float(df["shift_" + ax].iloc[i])
                w = content["coord"][i][k]
                if not abs(g - w) <= TOL_FILE_POS * max(1.0, abs(w)) * 2:
                    raise Violation("roundtrip_position", "position", "%s: particle %d complete %s=%r, expected %r" % (what, i, ax, g, w))
            Rg = pose.R_particle(float(df["phi"].iloc[i]), float(df["theta"].iloc[i]), float(df["psi"].iloc[i]))
            if pose.rot_err(Rg, np.asarray(content["R_rel"][i]).T) > TOL_FILE_ROT:
                raise Violation("roundtrip_rotation", "rotation", "%s: particle %d orientation changed" % (what, i))

    def op_import_df(self, world, step):
        sess = world.session(step["sess"])
        if step["src"] not in sess or sess[step["src"]]["kind"] != "rdf":
            raise Skip()
        t = sess[step["src"]]
        kw = {}
        if step["hint_version"]:
            kw["version"] = t["version"]
        out = world.call(step["sess"], cryomotl.RelionMotl, t["obj"], **kw)
        world.note("import_df %r -> %s" % (kw, out.describe()))
        if not out.ok:
            raise Violation("import_raised", "import_df:%s" % out.describe(),
                            "RelionMotl(<RELION %.1f table made by create_relion_df>) raised %r\n%s" % (t["version"], out.exc, out.tb))
        exp = self.expected_import(t["content"], t["version"], None)
        self.check_import(world, out.value.df, exp, "RelionMotl(table v%.1f)" % t["version"], TOL_MEM_POS * 10, TOL_MEM_ROT * 10)
        world.stats["acks"] += 1
        world.stats["judged_imports"] += 1
        world.probes["memory_roundtrip"] += 1
        return []

    def foreign_table(self, world, step):
        """the independent RELION writer: tokens per column, optics block and the ground truth it implies"""
        v = step["version"]
        parts = step["parts"]
        n = len(parts)
        px = step["px"]
        tomo_name, sub_name, origin_names, spec = names_for(v)
        # p["ang"] is *interpreted* as RELION's (rot, tilt, psi) of the foreign file
        rel_ang = [p["ang"] for p in parts]
        cols = {}
        cols["rlnCoordinateX"] = ["%.6f" % p["x"][0] for p in parts]
        cols["rlnCoordinateY"] = ["%.6f" % p["x"][1] for p in parts]
        cols["rlnCoordinateZ"] = ["%.6f" % p["x"][2] for p in parts]
        cols["rlnAngleRot"] = ["%.6f" % a[0] for a in rel_ang]
        cols["rlnAngleTilt"] = ["%.6f" % a[1] for a in rel_ang]
        cols["rlnAnglePsi"] = ["%.6f" % a[2] for a in rel_ang]
        if step["origins"] is not None:
            for k, nm in enumerate(origin_names):
                cols[nm] = ["%.6f" % o[k] for o in step["origins"]]
        else:
            world.probes["foreign_no_origin_columns"] += 1
        cols["rlnClassNumber"] = ["%d" % p["cls"] for p in parts]
        if v >= 4.0:
            cols[tomo_name] = ["TS_%03d" % p["tomo"] for p in parts]
            cols[sub_name] = ["TS_%03d/%d" % (p["tomo"], p["subtomo"]) for p in parts]
        else:
            cols[tomo_name] = ["/data/tomograms/%04d_%.2fA.rec" % (p["tomo"], px) for p in parts]
            cols[sub_name] = ["/data/subtomo/%04d/%04d_%07d_%.2fA.mrc" % (p["tomo"], p["tomo"], p["subtomo"], px) for p in parts]
        subset = None
        if step["subset"] == "parity":
            subset = [1 if p["subtomo"] % 2 == 1 else 2 for p in parts]
        elif step["subset"] == "one":
            subset = [1 for _ in parts]
        if subset is not None:
            cols["rlnRandomSubset"] = ["%d" % s for s in subset]
        pixel_col = None
        if v < 4.0 and v >= 3.1:
            cols["rlnOpticsGroup"] = ["1"] * n
        if v <= 3.0:
            cols["rlnPixelSize"] = ["%.6f" % px] * n
            pixel_col = float("%.6f" % px)
        if step["extra_cols"]:
            cols["rlnCtfImage"] = ["/ctf/%04d_ctf.mrc" % p["subtomo"] for p in parts]
            cols["rlnMagnification"] = ["10000.000000"] * n
        optics = None
        optics_px = None
        if v >= 3.1:
            optics_px = float("%.6f" % px)
            optics = {"spec": "data_optics", "labels": ["rlnOpticsGroup", "rlnOpticsGroupName", "rlnVoltage", "rlnImagePixelSize"],
                      "rows": [["1", "opticsGroup1", "300.000000", "%.6f" % px]]}
        content = {"kind": "rln", "version": v,
                   "coord": [[float(cols["rlnCoordinate" + ax][i]) for ax in "XYZ"] for i in range(n)],
                   "origin": [[float(cols[nm][i]) if nm in cols else 0.0 for nm in origin_names] for i in range(n)],
                   "R_rel": [pose.R_relion(float(cols["rlnAngleRot"][i]), float(cols["rlnAngleTilt"][i]), float(cols["rlnAnglePsi"][i])) for i in range(n)],
                   "tomo": [int(p["tomo"]) for p in parts], "cls": [p["cls"] for p in parts],
                   "subtomo": [int(p["subtomo"]) for p in parts], "subset": subset, "pixel_col": pixel_col,
                   "optics_px": optics_px, "true_px": px, "via_file": True}
        return spec, cols, optics, content

    def op_foreign_relion(self, world, step):
        path = self.abspath(world, step["path"])
        v = step["version"]
        spec, cols, optics, content = self.foreign_table(world, step)
        labels = list(cols)
        n = len(step["parts"])
        blocks = [optics] if optics else []
        blocks.append({"spec": spec, "labels": labels, "rows": [[cols[c][r] for c in labels] for r in range(n)]})
        text = starmodel.render(blocks, {"eol": "\r\n" if step["crlf"] else "\n", "numbered": step["numbered"],
                                         "header_comment": ["version 30001"], "seps": [" ", "  "], "lead": " "})
        world.fs.put(path, text.encode("ascii"))
        world.mfs[path] = ("known", content)
        world.pending_recovery.pop(path, None)
        world.probes["foreign_relion_%.1f" % v] += 1
        return [path]

    def op_foreign_df(self, world, step):
        """the same foreign RELION particle table handed over in memory (e.g. read with another STAR library and
        filtered / sorted by the user, hence any index labels), imported with RelionMotl(table)"""
        v = step["version"]
        spec, cols, optics, content = self.foreign_table(world, step)
        data = {}
        for c, toks in cols.items():
            try:
                vals = [float(t) for t in toks]
                data[c] = [int(x) for x in vals] if all(float(x).is_integer() for x in vals) and "Coordinate" not in c and "Angle" not in c and "Origin" not in c and "Pixel" not in c else vals
            except ValueError:
                data[c] = list(toks)
        df = pd.DataFrame(data)
        if step.get("index"):
            df.index = step["index"]
            world.probes["foreign_df_nondefault_index"] += 1
        kw = {"version": v}
        # in memory there is no optics block to read the pixel size from: the caller passes it (>= 3.1)
        if v >= 3.1:
            kw["pixel_size"] = step["px"]
        exp = self.expected_import(content, v, kw.get("pixel_size"))
        # the table is the caller's: it is handed to cryoCAT once, or - the same object - a second time
        for nth in range(2 if step.get("again") else 1):
            out = world.call(step["sess"], cryomotl.RelionMotl, df, **kw)
            world.note("foreign_df v=%s -> %s" % (v, out.describe()))
            what = "RelionMotl(table v%.1f, %s index)%s" % (v, "non-default" if step.get("index") else "default",
                                                            ", the same table a second time" if nth else "")
            if not out.ok:
                raise Violation("import_raised", "foreign_df:%s" % out.describe(), "%s raised %r\n%s" % (what, out.exc, out.tb))
            self.check_import(world, out.value.df, exp, what, TOL_FILE_POS, TOL_FILE_ROT)
            world.stats["acks"] += 1
            world.stats["judged_imports"] += 1
            if nth:
                world.probes["same_table_imported_twice"] += 1
        return []

    # ----- pipelines through files -----
    def op_emmotl2relion(self, world, step):
        sess = world.session(step["sess"])
        if step["src"] not in sess or sess[step["src"]]["kind"] != "rln":
            raise Skip()
        h = sess[step["src"]]
        v = step["version"]
        dst = self.abspath(world, step["out"]) if step["out"] else None
        kw = {"tomo_format": step["tomo_format"], "subtomo_format": step["subtomo_format"], "relion_version": v,
              "pixel_size": step["pixel_size"], "binning": 1.0, "write_optics": step["optics"]}
        if step["out"]:
            kw["output_motl_path"] = step["out"]
        out = world.call(step["sess"], cryomotl.emmotl2relion, h["obj"].df.copy(), faults=step.get("faults", ()), **kw)
        world.note("emmotl2relion v=%s -> %s" % (v, out.describe()))
        if outcome_ack(out):
            got = matrix_to_parts(np.column_stack([out.value.df[c].to_numpy(dtype=float) for c in MOTL_COLS]))
            self.check_same_pose(world, got, h["parts"], "emmotl2relion result", 1e-9, 1e-9)
            sess[step["h"]] = {"kind": "rln", "obj": out.value, "parts": got, "version": v, "px": step["pixel_size"],
                               "binning": 1.0, "px_scalar": True}
            if dst:
                content = self.content_from_parts(h["parts"], v, step["pixel_size"], step["optics"], True)
                world.ack(dst, content)
                self.check_star_file(world, dst, h["parts"], v, v, step["tomo_format"], step["subtomo_format"],
                                     step["optics"], step["pixel_size"])
        elif out.faulted:
            if dst:
                world.indeterminate(dst)
        else:
            raise Violation("convert_raised", "emmotl2relion:%s" % out.describe(),
                            "fault-free emmotl2relion(%r) raised %r\n%s" % ({k: kw[k] for k in kw if k != "output_motl_path"}, out.exc, out.tb))
        return [dst] if dst else []

    def check_same_pose(self, world, got, want, what, tol_pos, tol_rot):
        world.oracle()
        if len(got) != len(want):
            raise Violation("roundtrip_rows", "nrows", "%s: %d particles, expected %d" % (what, len(got), len(want)))
        for i, (g, w) in enumerate(zip(got, want)):
            pg, pw = pos_of(g), pos_of(w)
            for k in range(3):
                if not abs(pg[k] - pw[k]) <= tol_pos * max(1.0, abs(pw[k])):
                    raise Violation("roundtrip_position", "position", "%s: particle %d complete position %r, expected %r" % (what, i, pg, pw))
            if pose.rot_err(pose.R_particle(*g["ang"]), pose.R_particle(*w["ang"])) > tol_rot:
                raise Violation("roundtrip_rotation", "rotation", "%s: particle %d orientation %r, expected %r" % (what, i, g["ang"], w["ang"]))
            if float(g["tomo"]) != float(w["tomo"]) or float(g["cls"]) != float(w["cls"]):
                raise Violation("roundtrip_identity", "tomo_class", "%s: particle %d tomo/class %r/%r, expected %r/%r" % (
                    what, i, g["tomo"], g["cls"], w["tomo"], w["cls"]))

    def op_relion2emmotl(self, world, step):
        sess = world.session(step["sess"])
        path = self.abspath(world, step["path"])
        known = world.known(path)
        judge = known is not None and known.get("kind") == "rln" and not known.get("mixed")
        dst = self.abspath(world, step["out"]) if step["out"] else None
        kw = {"update_coordinates": step["update"]}
        if step["out"]:
            kw["output_motl_path"] = step["out"]
        out = world.call(step["sess"], cryomotl.relion2emmotl, step["path"], faults=step.get("faults", ()), **kw)
        world.note("relion2emmotl -> %s" % out.describe())
        if outcome_ack(out):
            df = out.value.df
            if judge:
                exp = self.expected_import(known, known["version"], None)
                if step["update"]:
                    self.check_pose_only(world, df, known_with_shift(known, exp), "relion2emmotl(update_coordinates=True) of %s" % path)
                else:
                    self.check_import(world, df, exp, "relion2emmotl(%s)" % path, TOL_FILE_POS, TOL_FILE_ROT)
                world.stats["judged_imports"] += 1
            if dst:
                try:
                    m = np.column_stack([df[c].to_numpy(dtype=float) for c in MOTL_COLS]).reshape(len(df), 20)
                    exp32 = np.where(np.isnan(m), 0.0, m).astype(np.float32)
                    world.ack(dst, {"kind": "em"})
                    world.oracle()
                    em = emmodel.parse(world.fs.get(dst) or b"")
                    if em["dims"] != (20, len(m), 1) or not (em["array"][:, :, 0].T == exp32).all():
                        raise Violation("em_values", "relion2emmotl:em", "%s does not hold the converted list" % dst)
                except emmodel.EmFormatError as e:
                    raise Violation("em_invalid", "relion2emmotl:em_invalid", "%s: %s" % (dst, e))
        elif out.faulted:
            if dst:
                world.indeterminate(dst)
        elif judge:
            raise Violation("convert_raised", "relion2emmotl:%s" % out.describe(),
                            "fault-free relion2emmotl of a RELION file with acknowledged content raised %r\n%s" % (out.exc, out.tb))
        return [dst] if dst else []

    def op_relion2stopgap(self, world, step):
        path = self.abspath(world, step["path"])
        known = world.known(path)
        judge = known is not None and known.get("kind") == "rln" and not known.get("mixed")
        dst = self.abspath(world, step["out"]) if step["out"] else None
        kw = {}
        if step["out"]:
            kw["output_motl_path"] = step["out"]
        out = world.call(step["sess"], cryomotl.relion2stopgap, step["path"], faults=step.get("faults", ()), **kw)
        world.note("relion2stopgap -> %s" % out.describe())
        if outcome_ack(out):
            if judge:
                exp = self.expected_import(known, known["version"], None)
                self.check_import(world, out.value.df, exp, "relion2stopgap(%s)" % path, TOL_FILE_POS, TOL_FILE_ROT)
                world.stats["judged_imports"] += 1
            if dst:
                world.ack(dst, {"kind": "sg"})
        elif out.faulted:
            if dst:
                world.indeterminate(dst)
        elif judge:
            raise Violation("convert_raised", "relion2stopgap:%s" % out.describe(),
                            "fault-free relion2stopgap of a RELION file with acknowledged content raised %r\n%s" % (out.exc, out.tb))
        return [dst] if dst else []

    def op_stopgap_roundtrip(self, world, step):
        """particle list -> STOPGAP file -> stopgap2relion -> RELION file -> import: pose survives"""
        sess = world.session(step["sess"])
        if step["src"] not in sess or sess[step["src"]]["kind"] != "rln":
            raise Skip()
        h = sess[step["src"]]
        sg = self.abspath(world, step["sg"])
        dst = self.abspath(world, step["out"])
        v = step["version"]

        def do():
            cryomotl.StopgapMotl(h["obj"].df.copy()).write_out(step["sg"])
            return cryomotl.stopgap2relion(step["sg"], step["out"], tomo_format=step["tomo_format"],
                                           subtomo_format=step["subtomo_format"], relion_version=v, pixel_size=2.0,
                                           binning=1.0, write_optics=v >= 3.1)

        out = world.call(step["sess"], do, faults=step.get("faults", ()))
        world.note("stopgap_roundtrip v=%s -> %s" % (v, out.describe()))
        if outcome_ack(out):
            world.ack(sg, {"kind": "sg"})
            content = self.content_from_parts(h["parts"], v, 2.0, v >= 3.1, True)
            world.ack(dst, content)
            self.check_star_file(world, dst, h["parts"], v, v, step["tomo_format"], step["subtomo_format"], v >= 3.1, 2.0)
            world.probes["stopgap_relion_pipeline"] += 1
        elif out.faulted:
            world.indeterminate(sg)
            world.indeterminate(dst)
        else:
            raise Violation("convert_raised", "stopgap2relion:%s" % out.describe(),
                            "fault-free StopgapMotl.write_out + stopgap2relion raised %r\n%s" % (out.exc, out.tb))
        return [sg, dst]

    # ------------------------------------------------------------------ shrinking
    def shrink_step(self, step):
        if "parts" in step:
            parts = step["parts"]
            n = len(parts)
            if n > 1:
                for keep in (slice(0, n // 2), slice(n // 2, None), slice(0, n - 1), slice(1, None)):
                    s2 = dict(step, parts=parts[keep])
                    if step.get("origins"):
                        s2["origins"] = step["origins"][keep]
                    if step.get("index"):
                        s2["index"] = None
                    yield s2
            for i, p in enumerate(parts):
                if p["shift"] != [0.0, 0.0, 0.0]:
                    yield dict(step, parts=parts[:i] + [dict(p, shift=[0.0, 0.0, 0.0])] + parts[i + 1:])
                if p["ang"] != [0.0, 0.0, 0.0]:
                    yield dict(step, parts=parts[:i] + [dict(p, ang=[0.0, 0.0, 0.0])] + parts[i + 1:])
                    yield dict(step, parts=parts[:i] + [dict(p, ang=[float(round(a)) for a in p["ang"]])] + parts[i + 1:])
                if p["x"] != [1.0, 2.0, 3.0]:
                    yield dict(step, parts=parts[:i] + [dict(p, x=[1.0, 2.0, 3.0])] + parts[i + 1:])
        if step.get("index"):
            yield dict(step, index=None)
        for k in ("override", "optics", "hint_version", "give_px", "crlf", "extra_cols", "update"):
            if step.get(k):
                yield dict(step, **{k: False})
        if step.get("tomo_format"):
            yield dict(step, tomo_format="")
        if step.get("subtomo_format"):
            yield dict(step, subtomo_format="")


def known_with_shift(content, exp):
    """for update_coordinates=True only the complete position is comparable: coord - origin(/px)"""
    c2 = dict(content)
    c2["coord"] = [[p["x"][k] + p["shift"][k] for k in range(3)] for p in exp]
    return c2

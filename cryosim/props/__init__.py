"""One module per claimed property: workload generator, step executor, oracle."""

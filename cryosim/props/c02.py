"""C02 - STAR files read back to the same blocks, columns, rows and values.

Sessions write lists of tables to a small shared namespace of .star paths and read them back after
restarts; a foreign actor ("RELION", "STOPGAP", hand editing) drops STAR texts with comments, blank
lines, '#n' label suffixes, tabs / space runs, trailing whitespace, CRLF or LF, with or without a
final newline; disk faults and crashes are armed inside the calls.
Oracle: independent STAR tokenizer on the durable text; block/column/row model on reads.
"""
import numpy as np
import pandas as pd

from ..core import Property, Violation, Skip, outcome_ack, sha, ROOT
from ..models import star as starmodel

from cryocat import starfileio

PATHS = [ROOT + "/work/a.star", ROOT + "/work/b.star", ROOT + "/data/a.star", "rel.star"]
SPECS = ["data_", "data_particles", "data_optics", "data_stopgap_motivelist", "data_stopgap_wedgelist", "data_general"]
RESERVED = ("loop_", "global_", "stop_")
WORDS = ["Coordinate", "Angle", "Origin", "Micrograph", "Name", "Class", "Number", "Tilt", "Psi", "Rot", "Image",
         "Pixel", "Size", "Optics", "Group", "Random", "Subset", "Defocus", "Voltage", "X", "Y", "Z", "U", "V"]
SGWORDS = ["motl_idx", "tomo_num", "object", "subtomo_num", "halfset", "orig_x", "orig_y", "orig_z", "score",
           "x_shift", "y_shift", "z_shift", "phi", "psi", "the", "class", "tilt_angle", "defocus", "exposure",
           "pixelsize", "tomo_x", "tomo_y", "tomo_z", "z_shift2", "amp_contrast", "cs", "voltage", "extra1",
           "extra2", "extra3", "extra4"]
ALPHA = "abcdefghijklmnopqrstuvwxyzABCDEFGHIJKLMNOPQRSTUVWXYZ"
REST = ALPHA + "0123456789._-@/:+"
TOL_ABS = 5.0000001e-7


def is_numeric_token(tok):
    try:
        float(tok)
        return True
    except ValueError:
        pass
    try:
        pd.to_numeric(pd.Series([tok]))
        return True
    except (ValueError, TypeError):
        return False


def gen_text_token(rng, allow_data=False):
    if allow_data and rng.random() < 0.15:
        # e.g. a path like data_01/tomo_3.mrc: a legal text token (no whitespace, no '#', no leading '_', not numeric);
        # only generated for tables with >= 2 columns, where a row can never be mistaken for a block name
        return "data_%02d/%s" % (rng.randrange(100), rng.pick(["tomo_3.mrc", "x", "TS_01.rec"]))
    while True:
        n = rng.pick([1, 2, 3, 6, 12, 25])
        tok = rng.pick(ALPHA) + "".join(rng.pick(REST) for _ in range(n - 1))
        if tok in RESERVED or tok.startswith("data_") or tok.startswith("save_") or is_numeric_token(tok):
            continue
        return tok


def gen_float(rng, style):
    if style == "plain":
        return rng.uniform(-1000, 1000)
    if style == "r3":
        return round(rng.uniform(-500, 500), 3)
    if style == "tiny":
        return rng.uniform(-1, 1) * 1e-5
    if style == "big":
        return round(rng.uniform(-1, 1) * 1e12, 2)
    if style == "integral":
        return float(rng.randrange(-1000, 1000))
    if style == "halfstep":
        return rng.randrange(-1000, 1000) + rng.pick([0.5e-6, 1.5e-6, 0.0000005, 0.1234565])
    raise ValueError(style)


def gen_frame(rng, nrows, ncols, stopgap):
    names = []
    pool = list(SGWORDS)
    rng.shuffle(pool)
    while len(names) < ncols:
        nm = pool.pop() if stopgap and pool else "rln" + rng.pick(WORDS) + rng.pick(WORDS) + rng.pick(["", "", "X", "2"])
        if nm not in names:
            names.append(nm)
    cols = []
    for nm in names:
        kind = rng.weighted([("int", 3), ("float", 5), ("text", 3), ("mixedtext", 1)])
        if kind == "int":
            if rng.random() < 0.1:   # identifiers beyond 2**53: exact in int64, not representable in float64
                vals = [rng.pick([-1, 1]) * (2 ** 53 + rng.randrange(1, 10 ** 6) * 2 + 1) for _ in range(nrows)]
            else:
                vals = [rng.randrange(-1000, 100000) for _ in range(nrows)]
        elif kind == "float":
            st = rng.pick(["plain", "r3", "tiny", "big", "integral", "halfstep"])
            vals = [gen_float(rng, st) for _ in range(nrows)]
        elif kind == "text":
            vals = [gen_text_token(rng, ncols >= 2) for _ in range(nrows)]
        else:
            vals = [gen_text_token(rng, ncols >= 2) if (i == 0 or rng.chance(0.5)) else str(rng.randrange(100)) for i in range(nrows)]
        cols.append({"name": nm, "kind": kind, "values": vals})
    return cols


def build_df(cols, nrows, index=None):
    data = {}
    for c in cols:
        if c["kind"] == "int":
            data[c["name"]] = np.array(c["values"], dtype=np.int64)
        elif c["kind"] == "float":
            data[c["name"]] = np.array(c["values"], dtype=np.float64)
        else:
            data[c["name"]] = pd.Series(list(c["values"]), dtype=object)
    df = pd.DataFrame(data, columns=[c["name"] for c in cols], index=range(nrows))
    if index is not None and len(index) == nrows:
        df.index = index  # a sorted / filtered / concatenated table: same rows, other index labels
    return df


def expected_from_frames(blocks):
    exp = []
    for b in blocks:
        cols = []
        for c in b["cols"]:
            numeric = c["kind"] in ("int", "float")
            cols.append({"numeric": numeric, "values": list(c["values"]), "tol": TOL_ABS if numeric else 0.0,
                         "exact_int": c["kind"] == "int"})
        exp.append({"spec": b["spec"], "labels": [c["name"] for c in b["cols"]], "cols": cols, "nrows": b["nrows"]})
    return exp


FMT = ["%.6f", "%12.6f", "%d", "%.6e", "%g", "%.3f", "%13.6f"]


def foreign_tokens(blocks, fmts):
    """Render numbers as another program would print them; expectation = what the printed token says."""
    out_blocks, exp = [], []
    for bi, b in enumerate(blocks):
        toks_by_col, ecols = [], []
        for ci, c in enumerate(b["cols"]):
            if c["kind"] == "int":
                toks = ["%d" % v for v in c["values"]]
            elif c["kind"] == "float":
                f = fmts[(bi * 7 + ci) % len(fmts)]
                toks = [(f % v).strip() for v in c["values"]]
            else:
                toks = [str(v) for v in c["values"]]
            numeric = c["kind"] in ("int", "float")
            ecols.append({"numeric": numeric, "values": [float(t) for t in toks] if numeric else toks,
                          "tol": 0.0})
            toks_by_col.append(toks)
        rows = [[toks_by_col[ci][r] for ci in range(len(b["cols"]))] for r in range(b["nrows"])]
        labels = [c["name"] for c in b["cols"]]
        out_blocks.append({"spec": b["spec"], "labels": labels, "rows": rows})
        exp.append({"spec": b["spec"], "labels": labels, "cols": ecols, "nrows": b["nrows"]})
    return out_blocks, exp


class C02(Property):
    ID = "C02"
    SESSIONS = ["s0", "s1"]
    RUNS = {"quick": (3000, 3000), "thorough": (60000, 60000)}
    MUST_REACH = {"probes": ["crlf", "no_final_newline", "empty_last_block", "nondefault_table_index", "file_larger_than_64KiB", "recovery_after_fault"], "faults": ["crash", "enospc", "eio_write", "eio_read", "short_write", "short_read", "eintr", "open_fail"]}

    def config(self, rng, tier, faulty):
        cfg = {
            "max_steps": rng.pick([4, 6, 10]),
            "max_rows": rng.pick([1, 3, 10, 60, 60, 200] if tier == "quick" else [1, 3, 10, 60, 200, 200]),
            "max_cols": rng.pick([1, 3, 8, 30]),
            "max_blocks": rng.pick([1, 2, 4]),
            "env_rate": rng.pick([0.1, 0.2]),
            "env_kinds": ["env.restart", "env.restart", "env.foreign_put", "env.cwd"],
            "fault_rate": 0.0, "fault_kinds": [],
        }
        if faulty:
            kinds = ["enospc", "eio_write", "eio_read", "short_write", "short_read", "eintr", "crash", "open_fail",
                     "toctou"]
            rng.shuffle(kinds)
            cfg["fault_kinds"] = sorted(kinds[: rng.randrange(1, len(kinds) + 1)])
            cfg["fault_rate"] = rng.pick([0.3, 0.5, 0.7])
            cfg["env_kinds"] = cfg["env_kinds"] + rng.pick([[], ["env.capacity", "env.heal"],
                                                            ["env.handle_budget", "env.heal"],
                                                            ["env.readonly", "env.heal"], ["env.foreign_delete"]])
        return cfg

    def init(self, world):
        world.fs.mkdir_raw(ROOT + "/data")
        world.fs.mkdir_raw(ROOT + "/elsewhere")

    def paths(self, world):
        return [self.abspath(world, p) for p in PATHS]

    # ------------------------------------------------------------------ generation
    def gen_blocks(self, rng, cfg):
        nb = rng.randrange(1, cfg["max_blocks"] + 1)
        blocks = []
        for i in range(nb):
            spec = rng.pick(SPECS)
            nrows = rng.randrange(1, cfg["max_rows"] + 1)
            if i == nb - 1 and rng.chance(0.08):
                nrows = 0  # an empty table only as the last block
            ncols = rng.randrange(1, cfg["max_cols"] + 1)
            b = {"spec": spec, "nrows": nrows, "cols": gen_frame(rng, nrows, ncols, "stopgap" in spec)}
            style = rng.pick(["default", "default", "shuffled", "gaps", "repeated"])
            if style == "shuffled":
                b["index"] = rng.perm(nrows)
            elif style == "gaps":
                b["index"] = sorted(rng.sample(range(3 * nrows + 2), nrows))
            elif style == "repeated":
                b["index"] = [i % max(1, nrows // 2) for i in range(nrows)]
            blocks.append(b)
        return blocks

    def gen_layout(self, rng):
        return {
            "eol": rng.pick(["\n", "\n", "\r\n"]), "final_newline": rng.chance(0.7),
            "seps": [rng.pick(["\t", " ", "  ", "   \t ", "\t\t", "      "]) for _ in range(rng.randrange(1, 4))],
            "lead": rng.pick(["", "", " ", "   ", "\t"]), "trail": rng.pick(["", "", " ", "  \t"]),
            "numbered": rng.chance(0.7), "numsep": rng.pick([" ", "  ", "\t"]),
            "header_comment": rng.pick([[], ["version 30001"], ["created by relion", "2024-01-01 10:00"]]) if not rng.chance(0.04)
            else ["processing log line %05d: %s" % (i, "x" * 40) for i in range(rng.pick([1200, 2500]))],  # > 64 KiB of comments
            "block_comments": rng.pick([[], [], ["block comment"]]),
            "blank_before": rng.randrange(0, 3), "blank_after_spec": rng.randrange(0, 3),
            "blank_after_labels": rng.randrange(0, 3),
            "comment_after_labels": rng.pick([None, None, "rows follow"]),
            "blank_between": rng.randrange(1, 3),
        }

    def gen_step(self, world, rng):
        sess = rng.pick(self.SESSIONS)
        cfg = world.cfg
        op = rng.weighted([("write", 5), ("read", 5), ("foreign_star", 3)])
        if op == "write":
            return {"op": "write", "sess": sess, "path": rng.pick(PATHS), "blocks": self.gen_blocks(rng, cfg),
                    "number_columns": rng.chance(0.7), "default_specs": False, "io": True,
                    "hint": {"write": 3, "any": 8}}
        if op == "read":
            return {"op": "read", "sess": sess, "path": rng.pick(PATHS),
                    "api": rng.pick(["read", "read", "Starfile", "read_id", "get_frame"]), "k": rng.randrange(4),
                    "scribble": rng.chance(0.4), "io": True, "hint": {"read": 2, "any": 5}}
        return {"op": "foreign_star", "path": rng.pick(PATHS), "blocks": self.gen_blocks(rng, cfg),
                "layout": self.gen_layout(rng), "fmts": [rng.pick(FMT) for _ in range(5)]}

    def gen_recovery(self, world, rng):
        steps = []
        cfg = dict(world.cfg, max_rows=4, max_cols=4, max_blocks=2)
        for p in sorted(world.pending_recovery):
            steps.append({"op": "write", "sess": "s0", "path": p, "blocks": self.gen_blocks(rng, cfg),
                          "number_columns": True, "default_specs": False})
            steps.append({"op": "read", "sess": "s0", "path": p, "api": "read", "k": 0})
        return steps

    # ------------------------------------------------------------------ execution + oracle
    def apply(self, world, step):
        op = step["op"]
        if op == "foreign_star":
            path = self.abspath(world, step["path"])
            blocks, exp = foreign_tokens(step["blocks"], step["fmts"])
            text = starmodel.render(blocks, step["layout"])
            # self-check of the foreign writer against the independent tokenizer (harness sanity)
            back = starmodel.parse(text)
            assert [b["rows"] for b in back] == [b["rows"] for b in blocks], "foreign STAR writer/tokenizer disagree"
            world.fs.put(path, text.encode("ascii"))
            world.mfs[path] = ("known", exp)
            world.pending_recovery.pop(path, None)
            world.probes["foreign_star"] += 1
            if step["layout"]["eol"] == "\r\n":
                world.probes["crlf"] += 1
            if not step["layout"]["final_newline"]:
                world.probes["no_final_newline"] += 1
            if len(text) > 65536:
                world.probes["file_larger_than_64KiB"] += 1
            if step["blocks"][-1]["nrows"] == 0:
                world.probes["empty_last_block"] += 1
            return [path]
        if op == "write":
            return self.do_write(world, step)
        if op == "read":
            return self.do_read(world, step)
        raise Skip()

    def do_write(self, world, step):
        path = self.abspath(world, step["path"])
        blocks = step["blocks"]
        frames = [build_df(b["cols"], b["nrows"], b.get("index")) for b in blocks]
        if any(b.get("index") for b in blocks):
            world.probes["nondefault_table_index"] += 1
        specs = [b["spec"] for b in blocks]
        if step.get("default_specs"):
            kw = {}
            eff_blocks = [dict(b, spec="data") for b in blocks]
        else:
            kw = {"specifiers": list(specs)}
            eff_blocks = blocks
        kw["number_columns"] = step["number_columns"]
        out = world.call(step["sess"], starfileio.Starfile.write, list(frames), step["path"],
                         faults=step.get("faults", ()), **kw)
        world.note("write %d blocks -> %s" % (len(blocks), out.describe()))
        if blocks[-1]["nrows"] == 0:
            world.probes["empty_last_block"] += 1
        if outcome_ack(out):
            exp = expected_from_frames(eff_blocks)
            world.ack(path, exp)
            self.check_text(world, path, exp)
            if len(world.fs.get(path) or b"") > 65536:
                world.probes["file_larger_than_64KiB"] += 1
        elif out.faulted:
            world.indeterminate(path)
        else:
            raise Violation("write_raised", "write:%s" % out.describe(),
                            "fault-free Starfile.write of %d blocks raised %r\n%s" % (len(blocks), out.exc, out.tb))
        return [path]

    def check_text(self, world, path, exp):
        world.oracle()
        data = world.fs.get(path)
        if data is None:
            raise Violation("file_missing", "write:no_file", "%s does not exist after an acknowledged write" % path)
        try:
            blocks = starmodel.parse(data.decode("utf-8"))
        except (starmodel.StarFormatError, UnicodeDecodeError) as e:
            raise Violation("star_invalid", "write:invalid", "%s is not valid STAR: %s" % (path, e))
        if [b["spec"] for b in blocks] != [e["spec"] for e in exp]:
            raise Violation("file_blocks", "write:specifiers", "file has blocks %r, expected %r" % (
                [b["spec"] for b in blocks], [e["spec"] for e in exp]))
        for b, e in zip(blocks, exp):
            if b["labels"] != e["labels"]:
                raise Violation("file_labels", "write:labels", "block %s labels %r, expected %r" % (
                    e["spec"], b["labels"], e["labels"]))
            if len(b["rows"]) != e["nrows"]:
                raise Violation("file_rows", "write:nrows", "block %s has %d rows, expected %d" % (
                    e["spec"], len(b["rows"]), e["nrows"]))
            for ci, c in enumerate(e["cols"]):
                for ri in range(e["nrows"]):
                    tok = b["rows"][ri][ci]
                    self.cmp_cell(tok, c, ri, "file %s block %s column %s" % (path, e["spec"], e["labels"][ci]),
                                  "file_values", from_text=True)

    def cmp_cell(self, got, c, ri, what, clause, from_text=False):
        want = c["values"][ri]
        if c.get("exact_int") and isinstance(want, int) and abs(want) > 2 ** 52:
            # an integer column: the value must come back exactly (no detour through float64)
            try:
                gi = int(got) if not isinstance(got, float) else (int(got) if got == int(got) else None)
            except (ValueError, TypeError):
                gi = None
            if isinstance(got, str):
                try:
                    gi = int(got)
                except ValueError:
                    try:
                        gi = int(float(got)) if float(got) == int(float(got)) else None
                    except ValueError:
                        gi = None
            if gi != want:
                raise Violation(clause, "big_integer", "%s row %d: %r, expected the integer %d exactly" % (what, ri, got, want))
            return
        if c["numeric"]:
            try:
                g = float(got)
            except (ValueError, TypeError):
                raise Violation(clause, "not_a_number", "%s row %d: %r is not a number (expected %r)" % (what, ri, got, want))
            if not abs(g - want) <= c["tol"] + 1e-12 * abs(want):
                raise Violation(clause, "numeric", "%s row %d: %r, expected %r (6-decimal precision)" % (what, ri, got, want))
        else:
            if not isinstance(got, str) or got != want:
                raise Violation(clause, "text", "%s row %d: %r, expected the text %r" % (what, ri, got, want))

    def do_read(self, world, step):
        path = self.abspath(world, step["path"])
        api = step["api"]
        exp = world.known(path)
        k = step["k"]
        if exp is not None:
            k = k % len(exp)

        def do():
            if api == "read":
                fr, sp, _c = starfileio.Starfile.read(step["path"])
                return fr, sp
            if api == "Starfile":
                s = starfileio.Starfile(step["path"])
                return s.frames, s.specifiers
            if api == "read_id":
                fr, sp, _c = starfileio.Starfile.read(step["path"], data_id=k)
                return [fr], [sp]
            fr, sp, _c = starfileio.Starfile.read(step["path"])
            f, _ = starfileio.Starfile.get_frame_and_comments(step["path"], sp[k])
            return [f], [sp[k]]

        out = world.call(step["sess"], do, faults=step.get("faults", ()))
        world.note("read %s -> %s" % (api, out.describe()))
        if outcome_ack(out):
            if exp is not None:
                frames, specs = out.value
                want = exp
                if api == "read_id":
                    want = [exp[k]]
                elif api == "get_frame":
                    first = [e["spec"] for e in exp].index(exp[k]["spec"])  # lookup by name returns the first match
                    want = [exp[first]]
                self.check_frames(world, frames, specs, want, "%s(%s)" % (api, path))
                world.stats["judged_reads"] += 1
                world.note(sha([list(map(str, f.columns)) for f in frames]))
            if step.get("scribble"):
                # what a read returns belongs to its caller, who goes on working on it in place; the next read of
                # the file - by anyone in this process - must still return what the file holds
                frames, specs = out.value
                for f in (frames if isinstance(frames, list) else []):
                    try:
                        if len(f) and len(f.columns):
                            f.iloc[:, 0] = -777
                            f.drop(index=f.index[:1], inplace=True)
                        f.rename(columns={c: "scribbled_%s" % c for c in f.columns}, inplace=True)
                    except Exception:  # noqa: BLE001 - the caller's own edits are not under test
                        pass
                for lst in (frames, specs):
                    if isinstance(lst, list):
                        del lst[:]
                world.probes["caller_edits_read_result_in_place"] += 1
        elif not out.faulted and exp is not None:
            raise Violation("read_raised", "read:%s:%s" % (api, out.describe()),
                            "fault-free %s of a STAR file with acknowledged content raised %r\n%s" % (api, out.exc, out.tb))
        return []

    def check_frames(self, world, frames, specs, exp, what):
        world.oracle()
        if list(specs) != [e["spec"] for e in exp]:
            raise Violation("read_blocks", "read:specifiers", "%s returned blocks %r, expected %r" % (
                what, list(specs), [e["spec"] for e in exp]))
        if len(frames) != len(exp):
            raise Violation("read_blocks", "read:nframes", "%s returned %d tables for %d blocks" % (what, len(frames), len(exp)))
        for f, e in zip(frames, exp):
            if list(f.columns) != e["labels"]:
                raise Violation("read_labels", "read:labels", "%s block %s: columns %r, expected %r" % (
                    what, e["spec"], list(f.columns), e["labels"]))
            if len(f) != e["nrows"]:
                raise Violation("read_rows", "read:nrows", "%s block %s: %d rows, expected %d" % (
                    what, e["spec"], len(f), e["nrows"]))
            if e["nrows"] == 0:
                continue
            for ci, c in enumerate(e["cols"]):
                col = f.iloc[:, ci]
                isnum = pd.api.types.is_numeric_dtype(col.dtype)
                where = "%s block %s column %s" % (what, e["spec"], e["labels"][ci])
                if c["numeric"] and not isnum:
                    raise Violation("read_dtype", "numeric_as_text", "%s: numeric column came back as %s" % (where, col.dtype))
                if not c["numeric"] and isnum:
                    raise Violation("read_dtype", "text_as_numeric", "%s: text column came back as %s" % (where, col.dtype))
                vals = col.tolist()
                for ri in range(e["nrows"]):
                    self.cmp_cell(vals[ri], c, ri, where, "read_values")

    # ------------------------------------------------------------------ shrinking
    def shrink_step(self, step):
        if "blocks" not in step:
            return
        blocks = step["blocks"]
        if len(blocks) > 1:
            for i in range(len(blocks)):
                yield dict(step, blocks=blocks[:i] + blocks[i + 1:])
        for bi, b in enumerate(blocks):
            if len(b["cols"]) > 1:
                for ci in range(len(b["cols"])):
                    b2 = dict(b, cols=b["cols"][:ci] + b["cols"][ci + 1:])
                    if len(b2["cols"]) == 1 and any(str(v).startswith("data_") for v in b2["cols"][0]["values"]):
                        continue  # a one-column table must not hold tokens that look like block names
                    yield dict(step, blocks=blocks[:bi] + [b2] + blocks[bi + 1:])
            if b.get("index"):
                b2 = {k: v for k, v in b.items() if k != "index"}
                yield dict(step, blocks=blocks[:bi] + [b2] + blocks[bi + 1:])
            if b["nrows"] > 1:
                for keep in (slice(0, b["nrows"] // 2), slice(b["nrows"] // 2, None), slice(0, b["nrows"] - 1)):
                    cols = [dict(c, values=c["values"][keep]) for c in b["cols"]]
                    b2 = dict(b, cols=cols, nrows=len(cols[0]["values"]))
                    if b.get("index"):
                        b2["index"] = b["index"][keep]
                    yield dict(step, blocks=blocks[:bi] + [b2] + blocks[bi + 1:])
        if "layout" in step:
            plain = {"eol": "\n", "final_newline": True, "seps": ["\t"], "lead": "", "trail": "", "numbered": True,
                     "numsep": " ", "header_comment": [], "block_comments": [], "blank_before": 1,
                     "blank_after_spec": 1, "blank_after_labels": 0, "comment_after_labels": None, "blank_between": 1}
            lay = step["layout"]
            if lay != plain:
                yield dict(step, layout=plain)
                for k in plain:
                    if lay.get(k) != plain[k]:
                        yield dict(step, layout=dict(lay, **{k: plain[k]}))

"""C04 - STOPGAP <-> cryoCAT conversion is a lossless renaming with parity half-sets.

Sessions hold particle lists (raw tables with arbitrary index labels, Motl, StopgapMotl), filter
them in place (which leaves a non-contiguous row index behind), convert in memory, write .star/.em
files with update_coord / reset_index, restart, load; a foreign "STOPGAP" writer drops motive lists
in its own column order and number formats; disk faults and crashes are armed inside the calls.
Oracle: renaming table + parity rule + row model; independent STAR tokenizer / EM parser on bytes.
"""
import math

import numpy as np
import pandas as pd

from ..core import Property, Violation, Skip, outcome_ack, ROOT
from ..gen import MOTL_COLS, gen_motl_rows, rows_to_matrix
from ..models import star as starmodel, em as emmodel

from cryocat import cryomotl

# the documented renaming (cryoCAT field -> STOPGAP field), written out here independently
RENAME = [("subtomo_id", "subtomo_num"), ("tomo_id", "tomo_num"), ("object_id", "object"), ("x", "orig_x"),
          ("y", "orig_y"), ("z", "orig_z"), ("score", "score"), ("shift_x", "x_shift"), ("shift_y", "y_shift"),
          ("shift_z", "z_shift"), ("phi", "phi"), ("psi", "psi"), ("theta", "the"), ("class", "class")]
SG_COLS = ["motl_idx", "tomo_num", "object", "subtomo_num", "halfset", "orig_x", "orig_y", "orig_z", "score",
           "x_shift", "y_shift", "z_shift", "phi", "psi", "the", "class"]
IDX = {c: i for i, c in enumerate(MOTL_COLS)}
PATHS = [ROOT + "/work/a.star", ROOT + "/work/b.star", ROOT + "/data/a.star", "rel.star", ROOT + "/work/a.em",
         "rel.em"]
STAR_TOL = 5.0000001e-7


def sg_expect(mat, reset_index):
    """model of the export: dict sg column -> list of values (halfset as 'A'/'B')"""
    n = mat.shape[0]
    out = {}
    for em, sg in RENAME:
        out[sg] = mat[:, IDX[em]].tolist()
    out["halfset"] = ["A" if (v % 2) == 0 else ("B" if (v % 2) == 1 else None) for v in mat[:, IDX["subtomo_id"]]]
    out["motl_idx"] = [float(i) for i in range(1, n + 1)] if reset_index else list(out["subtomo_num"])
    return out


def close(a, b, tol):
    if a is None or b is None:
        return False
    if isinstance(a, float) and math.isnan(a) and isinstance(b, float) and math.isnan(b):
        return True
    return abs(a - b) <= tol + 1e-12 * abs(b)


class C04(Property):
    ID = "C04"
    SESSIONS = ["s0", "s1"]
    RUNS = {"quick": (4000, 4000), "thorough": (80000, 80000)}
    MUST_REACH = {"probes": ["nondefault_index", "index_gaps_after_filter", "foreign_stopgap_file", "foreign_column_order", "update_coord", "new_shifts_between_writes", "recovery_after_fault"], "faults": ["crash", "enospc", "eio_read", "short_read", "eintr", "open_fail"]}

    def config(self, rng, tier, faulty):
        cfg = {
            "max_steps": rng.pick([5, 8, 12]),
            "max_rows": rng.pick([1, 3, 8, 30] if tier == "quick" else [1, 3, 8, 30, 300]),
            "env_rate": rng.pick([0.1, 0.2]),
            "env_kinds": ["env.restart", "env.restart", "env.foreign_put", "env.cwd"],
            "fault_rate": 0.0, "fault_kinds": [],
        }
        if faulty:
            kinds = ["enospc", "eio_write", "eio_read", "short_write", "short_read", "eintr", "crash", "open_fail",
                     "toctou"]
            rng.shuffle(kinds)
            cfg["fault_kinds"] = sorted(kinds[: rng.randrange(1, len(kinds) + 1)])
            cfg["fault_rate"] = rng.pick([0.3, 0.5, 0.7])
            cfg["env_kinds"] = cfg["env_kinds"] + rng.pick([[], ["env.capacity", "env.heal"],
                                                            ["env.handle_budget", "env.heal"],
                                                            ["env.readonly", "env.heal"], ["env.foreign_delete"]])
        return cfg

    def init(self, world):
        world.fs.mkdir_raw(ROOT + "/data")
        world.fs.mkdir_raw(ROOT + "/elsewhere")
        world.model["n"] = 0

    def paths(self, world):
        return [self.abspath(world, p) for p in PATHS]

    # ------------------------------------------------------------------ generation
    def gen_rows(self, rng, n):
        rows = gen_motl_rows(rng, n, 0.0, wild=False)
        # subtomogram numbers: integers, non-sequential, unsorted; a few small tomo/class values to filter on
        ids = rng.sample(range(1, 10 * n + 50), n)
        for r, i in zip(rows, ids):
            r[IDX["subtomo_id"]] = float(i)
            r[IDX["tomo_id"]] = float(rng.randrange(1, 4))
            r[IDX["class"]] = float(rng.randrange(1, 4))
        return rows

    def new_handle(self, world):
        world.model["n"] += 1
        return "m%d" % world.model["n"]

    def gen_step(self, world, rng):
        plan = world.model.setdefault("plan", [])
        while plan:
            st = plan.pop(0)
            if st["h"] in world.session(st["sess"]):
                return st
        sess = rng.pick(self.SESSIONS)
        handles = sorted(world.session(sess))
        cfg = world.cfg
        ops = [("new", 3), ("load", 3), ("foreign_sg", 2), ("stopgap2emmotl", 1), ("from_sg_df", 2)]
        if handles:
            ops += [("to_sg", 3), ("write", 4), ("filter", 2), ("emmotl2stopgap", 2), ("wrap", 1), ("reshift", 2)]
        op = rng.weighted(ops)
        if op == "new":
            n = rng.randrange(1, cfg["max_rows"] + 1)
            index = rng.pick(["default", "default", "shifted", "shuffled"])
            idx = list(range(n))
            if index == "shifted":
                idx = [i + 7 for i in idx]
            elif index == "shuffled":
                rng.shuffle(idx)
            return {"op": "new", "sess": sess, "h": self.new_handle(world), "rows": self.gen_rows(rng, n),
                    "index": idx, "wrap": rng.pick(["df", "Motl", "StopgapMotl", "StopgapMotl"])}
        if op == "from_sg_df":
            n = rng.randrange(1, cfg["max_rows"] + 1)
            style = rng.pick(["default", "shuffled", "gaps", "shifted"])
            idx = None
            if style == "shuffled":
                idx = list(range(n))
                rng.shuffle(idx)
            elif style == "gaps":
                idx = sorted(rng.sample(range(3 * n + 2), n))
            elif style == "shifted":
                idx = [i + 1 for i in range(n)]
            return {"op": "from_sg_df", "sess": sess, "h": self.new_handle(world), "rows": self.gen_rows(rng, n), "index": idx,
                    "halfsets": [rng.pick("AB") for _ in range(n)], "api": rng.pick(["StopgapMotl", "stopgap2emmotl"])}
        if op == "wrap":
            return {"op": "wrap", "sess": sess, "src": rng.pick(handles), "h": self.new_handle(world),
                    "wrap": rng.pick(["StopgapMotl", "StopgapMotl(StopgapMotl)", "Motl.load"])}
        if op == "filter":
            return {"op": "filter", "sess": sess, "h": rng.pick(handles), "feature": rng.pick(["tomo_id", "class"]),
                    "value": float(rng.randrange(1, 4))}
        if op == "to_sg":
            return {"op": "to_sg", "sess": sess, "h": rng.pick(handles), "reset_index": rng.chance(0.5)}
        if op == "reshift":
            return {"op": "reshift", "sess": sess, "h": rng.pick(handles),
                    "shift": [round(rng.uniform(-6, 6), 2) for _ in range(3)]}
        if op == "write":
            st = {"op": "write", "sess": sess, "h": rng.pick(handles), "path": rng.pick(PATHS),
                  "update_coord": rng.chance(0.3), "reset_index": rng.chance(0.5),
                  "api": rng.pick(["StopgapMotl.write_out", "Motl.write_out"]), "io": True,
                  "hint": {"write": 3, "any": 8}}
            if st["update_coord"] and rng.chance(0.6):
                # plan the next alignment iteration on the same object: new shifts, then another updating write
                plan.append({"op": "reshift", "sess": sess, "h": st["h"], "shift": [round(rng.uniform(-6, 6), 2) for _ in range(3)]})
                plan.append({"op": "write", "sess": sess, "h": st["h"], "path": rng.pick(PATHS), "update_coord": True,
                             "reset_index": rng.chance(0.5), "api": "StopgapMotl.write_out", "io": True,
                             "hint": {"write": 3, "any": 8}})
            return st
        if op == "load":
            return {"op": "load", "sess": sess, "path": rng.pick(PATHS[:4]), "h": self.new_handle(world),
                    "api": rng.pick(["StopgapMotl", "Motl.load"]), "io": True, "hint": {"read": 2, "any": 5}}
        if op == "stopgap2emmotl":
            return {"op": "stopgap2emmotl", "sess": sess, "src": rng.pick(PATHS[:4]),
                    "out": rng.pick([None, PATHS[4], PATHS[5]]), "update": rng.chance(0.3),
                    "h": self.new_handle(world), "io": True, "hint": {"read": 2, "write": 2, "any": 10}}
        if op == "emmotl2stopgap":
            return {"op": "emmotl2stopgap", "sess": sess, "src": rng.pick(handles + [PATHS[4]]),
                    "out": rng.pick([None, PATHS[0], PATHS[1], PATHS[3]]), "update": rng.chance(0.3),
                    "reset_index": rng.chance(0.5), "h": self.new_handle(world), "io": True,
                    "hint": {"read": 3, "write": 3, "any": 10}}
        n = rng.randrange(1, cfg["max_rows"] + 1)
        order = list(range(16))
        if rng.chance(0.5):
            rng.shuffle(order)
        return {"op": "foreign_sg", "path": rng.pick(PATHS[:4]), "rows": self.gen_rows(rng, n), "order": order,
                "halfsets": [rng.pick("AB") for _ in range(n)], "fmt": rng.pick(["%.6f", "%g", "%.4f", "%12.5f"]),
                "crlf": rng.chance(0.2), "extra_block": rng.chance(0.2)}

    def gen_recovery(self, world, rng):
        steps = []
        for p in sorted(world.pending_recovery):
            h = self.new_handle(world)
            steps.append({"op": "new", "sess": "s0", "h": h, "rows": self.gen_rows(rng, rng.randrange(1, 5)),
                          "index": None, "wrap": "StopgapMotl"})
            steps.append({"op": "write", "sess": "s0", "h": h, "path": p, "update_coord": False, "reset_index": False,
                          "api": "StopgapMotl.write_out"})
            if p.endswith(".star"):
                steps.append({"op": "load", "sess": "s0", "path": p, "h": self.new_handle(world), "api": "StopgapMotl"})
        return steps

    # ------------------------------------------------------------------ helpers
    def get_df(self, h):
        obj = h["obj"]
        return obj if isinstance(obj, pd.DataFrame) else obj.df

    def actual_matrix(self, df):
        return np.column_stack([df[c].to_numpy(dtype=float) for c in MOTL_COLS]).reshape(len(df), 20)

    def check_shared(self, world, df, mat, what, tol=0.0, clause="shared_fields"):
        """the 14 shared fields of df equal the model's, in the same particle order"""
        world.oracle()
        if len(df) != mat.shape[0]:
            raise Violation(clause, "nrows", "%s: %d particles, expected %d" % (what, len(df), mat.shape[0]))
        for em, _sg in RENAME:
            if em not in df.columns:
                raise Violation(clause, "missing_field", "%s: field %s missing" % (what, em))
            got = df[em].to_numpy(dtype=float)
            want = mat[:, IDX[em]]
            for i in range(len(want)):
                if not close(float(got[i]), float(want[i]), tol):
                    sig = "field:%s" % em
                    raise Violation(clause, sig, "%s: particle %d field %s is %r, expected %r" % (
                        what, i, em, got[i], want[i]))

    def check_sg_df(self, world, sg, exp, what):
        world.oracle()
        n = len(exp["subtomo_num"])
        if len(sg) != n:
            raise Violation("sg_rows", "nrows", "%s: %d rows, expected %d" % (what, len(sg), n))
        for col in SG_COLS:
            if col not in sg.columns:
                raise Violation("sg_columns", "missing:%s" % col, "%s: STOPGAP column %s missing" % (what, col))
            got = sg[col].tolist()
            for i in range(n):
                want = exp[col][i]
                if col == "halfset":
                    if want is not None and got[i] != want:
                        raise Violation("sg_halfset", "halfset", "%s: particle %d (subtomo %r) halfset %r, expected %r" % (
                            what, i, exp["subtomo_num"][i], got[i], want))
                else:
                    g = got[i]
                    if not isinstance(g, (int, float, np.integer, np.floating)) or not close(float(g), want, 0.0):
                        raise Violation("sg_values", "field:%s" % col, "%s: particle %d column %s is %r, expected %r" % (
                            what, i, col, g, want))

    def upd_model(self, mat):
        """what update_coordinates may legally produce is checked, not predicted: see check_updated"""
        return mat

    def check_updated(self, got, mat, what):
        """integer x,y,z, |shift| <= 0.5, complete position unchanged, everything else equal"""
        for ax in "xyz":
            g = got[:, IDX[ax]]
            s = got[:, IDX["shift_" + ax]]
            tot = mat[:, IDX[ax]] + mat[:, IDX["shift_" + ax]]
            for i in range(len(g)):
                if g[i] != np.floor(g[i]) or abs(s[i]) > 0.5 + 1e-9 or abs((g[i] + s[i]) - tot[i]) > 1e-6 * max(1.0, abs(tot[i])):
                    raise Violation("update_coord", "coord:%s" % ax,
                                    "%s: particle %d %s=%r shift=%r but the complete position was %r" % (
                                        what, i, ax, g[i], s[i], tot[i]))

    # ------------------------------------------------------------------ execution
    def apply(self, world, step):
        op = step["op"]
        fn = getattr(self, "op_" + op, None)
        if fn is None:
            raise Skip()
        return fn(world, step)

    def op_new(self, world, step):
        sess = world.session(step["sess"])
        mat = rows_to_matrix(step["rows"])
        df = pd.DataFrame(mat, columns=MOTL_COLS)
        if step.get("index"):
            df.index = step["index"]
            if step["index"] != list(range(len(df))):
                world.probes["nondefault_index"] += 1
        wrap = step["wrap"]

        def build():
            if wrap == "df":
                return df
            if wrap == "Motl":
                return cryomotl.Motl(df)
            return cryomotl.StopgapMotl(df)

        out = world.call(step["sess"], build)
        if not out.ok:
            raise Violation("construct_raised", "new:%s:%s" % (wrap, out.describe()),
                            "building %s from a 20-field table raised %r\n%s" % (wrap, out.exc, out.tb))
        sess[step["h"]] = {"obj": out.value, "model": mat.copy()}
        self.check_shared(world, self.get_df({"obj": out.value}), mat, "new %s" % wrap)
        return []

    def op_wrap(self, world, step):
        sess = world.session(step["sess"])
        if step["src"] not in sess:
            raise Skip()
        src = sess[step["src"]]
        wrap = step["wrap"]

        def build():
            if wrap == "Motl.load":
                obj = src["obj"]
                return cryomotl.Motl.load(obj if not isinstance(obj, pd.DataFrame) else cryomotl.Motl(obj))
            inner = src["obj"] if isinstance(src["obj"], pd.DataFrame) else src["obj"].df
            m = cryomotl.StopgapMotl(inner)
            if wrap == "StopgapMotl(StopgapMotl)":
                m = cryomotl.StopgapMotl(m)
            return m

        out = world.call(step["sess"], build)
        if not out.ok:
            raise Violation("construct_raised", "wrap:%s:%s" % (wrap, out.describe()),
                            "%s of a live particle list raised %r\n%s" % (wrap, out.exc, out.tb))
        sess[step["h"]] = {"obj": out.value, "model": src["model"].copy()}
        self.check_shared(world, out.value.df, src["model"], "wrap %s" % wrap)
        return []

    def op_filter(self, world, step):
        sess = world.session(step["sess"])
        if step["h"] not in sess:
            raise Skip()
        h = sess[step["h"]]
        if isinstance(h["obj"], pd.DataFrame):
            raise Skip()
        out = world.call(step["sess"], h["obj"].remove_feature, step["feature"], step["value"])
        if not out.ok:
            raise Violation("filter_raised", "filter:%s" % out.describe(), "remove_feature raised %r\n%s" % (out.exc, out.tb))
        keep = h["model"][:, IDX[step["feature"]]] != step["value"]
        if not keep.all() and keep.any():
            world.probes["index_gaps_after_filter"] += 1
        h["model"] = h["model"][keep]
        self.check_shared(world, h["obj"].df, h["model"], "after remove_feature")
        world.stats["acks"] += 1
        return []

    def op_reshift(self, world, step):
        """a new alignment iteration: the list receives new shifts (Motl.fill), as between two write_out calls"""
        sess = world.session(step["sess"])
        if step["h"] not in sess:
            raise Skip()
        h = sess[step["h"]]
        if isinstance(h["obj"], pd.DataFrame) or len(h["model"]) == 0:
            raise Skip()
        n = len(h["model"])
        vals = np.tile(np.array(step["shift"], dtype=float), (n, 1)) + np.arange(n).reshape(n, 1) * 0.25
        out = world.call(step["sess"], h["obj"].fill, {"shifts": vals})
        if not out.ok:
            raise Violation("fill_raised", "fill:%s" % out.describe(), "Motl.fill({'shifts': ...}) raised %r\n%s" % (out.exc, out.tb))
        for k, ax in enumerate(("shift_x", "shift_y", "shift_z")):
            h["model"][:, IDX[ax]] = vals[:, k]
        self.check_shared(world, h["obj"].df, h["model"], "after fill(shifts)")
        world.probes["new_shifts_between_writes"] += 1
        return []

    def op_to_sg(self, world, step):
        sess = world.session(step["sess"])
        if step["h"] not in sess:
            raise Skip()
        h = sess[step["h"]]
        if len(h["model"]) == 0:
            raise Skip()
        df = self.get_df(h)
        out = world.call(step["sess"], cryomotl.StopgapMotl.convert_to_sg_motl, df, step["reset_index"])
        world.note("to_sg -> %s" % out.describe())
        if not out.ok:
            raise Violation("to_sg_raised", "to_sg:%s" % out.describe(),
                            "convert_to_sg_motl of a %d-particle list raised %r\n%s" % (len(h["model"]), out.exc, out.tb))
        self.check_sg_df(world, out.value, sg_expect(h["model"], step["reset_index"]),
                         "convert_to_sg_motl(reset_index=%s)" % step["reset_index"])
        world.stats["acks"] += 1
        return []

    def op_write(self, world, step):
        sess = world.session(step["sess"])
        if step["h"] not in sess:
            raise Skip()
        h = sess[step["h"]]
        if isinstance(h["obj"], pd.DataFrame) or len(h["model"]) == 0:
            raise Skip()
        path = self.abspath(world, step["path"])
        obj = h["obj"]
        api = step["api"]
        if not isinstance(obj, cryomotl.StopgapMotl):
            api = "Motl.write_out"
        star = path.endswith(".star")

        def do():
            if api == "StopgapMotl.write_out":
                obj.write_out(step["path"], update_coord=step["update_coord"], reset_index=step["reset_index"])
            else:
                cryomotl.Motl.write_out(obj, step["path"], "stopgap" if star else "emmotl")

        before = h["model"].copy()
        out = world.call(step["sess"], do, faults=step.get("faults", ()))
        world.note("write %s %s -> %s" % (api, "star" if star else "em", out.describe()))
        upd = step["update_coord"] and api == "StopgapMotl.write_out"
        reset = step["reset_index"] and api == "StopgapMotl.write_out"
        if out.ok or not out.crashed:
            # the handle survives: learn what update_coordinates did to it (checked against the rule)
            try:
                got = self.actual_matrix(obj.df)
            except Exception:
                got = None
            if upd and got is not None and got.shape == before.shape and outcome_ack(out):
                self.check_updated(got, before, "write_out(update_coord=True)")
                h["model"] = got
                for c in MOTL_COLS:
                    if c not in ("x", "y", "z", "shift_x", "shift_y", "shift_z"):
                        h["model"][:, IDX[c]] = before[:, IDX[c]]
                world.probes["update_coord"] += 1
            elif upd and got is not None and got.shape == before.shape:
                h["model"] = got  # a failed call may or may not have updated the coordinates first
        if outcome_ack(out):
            mat = h["model"]
            if star:
                exp = sg_expect(mat, reset)
                world.ack(path, {"kind": "sg", "exp": exp, "tol": STAR_TOL})
                self.check_star_bytes(world, path, exp)
            else:
                exp32 = np.where(np.isnan(mat), 0.0, mat).astype(np.float32)
                world.ack(path, {"kind": "em", "exp": exp32})
                self.check_em_bytes(world, path, exp32)
        elif out.faulted:
            world.indeterminate(path)
        else:
            raise Violation("write_raised", "write:%s:%s" % (api, out.describe()),
                            "fault-free %s of a %d-particle list to %s raised %r\n%s" % (
                                api, len(h["model"]), path, out.exc, out.tb))
        return [path]

    def check_star_bytes(self, world, path, exp):
        world.oracle()
        data = world.fs.get(path)
        if data is None:
            raise Violation("file_missing", "write:no_file", "%s does not exist after an acknowledged write" % path)
        try:
            blocks = starmodel.parse(data.decode("utf-8"))
        except (starmodel.StarFormatError, UnicodeDecodeError) as e:
            raise Violation("star_invalid", "write:invalid", "%s is not valid STAR: %s" % (path, e))
        sg = [b for b in blocks if b["spec"] == "data_stopgap_motivelist"]
        if len(sg) != 1:
            raise Violation("star_block", "write:block", "%s: blocks %r, expected one data_stopgap_motivelist" % (
                path, [b["spec"] for b in blocks]))
        b = sg[0]
        n = len(exp["subtomo_num"])
        if len(b["rows"]) != n:
            raise Violation("file_rows", "write:nrows", "%s: %d rows, expected %d" % (path, len(b["rows"]), n))
        for col in SG_COLS:
            if col not in b["labels"]:
                raise Violation("file_labels", "write:missing:%s" % col, "%s: column %s missing (labels %r)" % (
                    path, col, b["labels"]))
            ci = b["labels"].index(col)
            for i in range(n):
                tok = b["rows"][i][ci]
                want = exp[col][i]
                if col == "halfset":
                    if want is not None and tok != want:
                        raise Violation("file_halfset", "halfset", "%s: particle %d (subtomo %r) halfset token %r, expected %r" % (
                            path, i, exp["subtomo_num"][i], tok, want))
                else:
                    try:
                        g = float(tok)
                    except ValueError:
                        raise Violation("file_values", "not_a_number:%s" % col, "%s: particle %d column %s token %r" % (path, i, col, tok))
                    if not close(g, want, STAR_TOL):
                        raise Violation("file_values", "field:%s" % col, "%s: particle %d column %s is %r, expected %r" % (
                            path, i, col, tok, want))

    def check_em_bytes(self, world, path, exp32):
        world.oracle()
        data = world.fs.get(path)
        try:
            em = emmodel.parse(data if data is not None else b"")
        except emmodel.EmFormatError as e:
            raise Violation("em_invalid", "write:em_invalid", "%s is not a valid EM file: %s" % (path, e))
        if em["code"] != 5 or em["dims"] != (20, exp32.shape[0], 1):
            raise Violation("em_header", "write:em_header", "%s: EM code %d dims %r" % (path, em["code"], em["dims"]))
        got = em["array"][:, :, 0].T.astype(np.float64)
        bad = ~(got == exp32.astype(np.float64))
        if bad.any():
            r, c = np.argwhere(bad)[0]
            raise Violation("em_values", "field:%s" % MOTL_COLS[c], "%s: particle %d field %s is %r, expected %r" % (
                path, r, MOTL_COLS[c], got[r, c], exp32[r, c]))

    def exp_matrix_from_sg(self, exp):
        n = len(exp["subtomo_num"])
        mat = np.full((n, 20), np.nan)
        for em, sg in RENAME:
            mat[:, IDX[em]] = exp[sg]
        return mat

    def op_load(self, world, step):
        sess = world.session(step["sess"])
        path = self.abspath(world, step["path"])
        api = step["api"]
        known = world.known(path)

        def do():
            if api == "StopgapMotl":
                return cryomotl.StopgapMotl(step["path"])
            return cryomotl.Motl.load(step["path"], "stopgap")

        out = world.call(step["sess"], do, faults=step.get("faults", ()))
        world.note("load %s -> %s" % (api, out.describe()))
        if outcome_ack(out):
            df = out.value.df
            if known is not None and known["kind"] == "sg":
                mat = self.exp_matrix_from_sg(known["exp"])
                self.check_shared(world, df, mat, "%s(%s)" % (api, path), tol=known["tol"], clause="load_values")
                world.stats["judged_loads"] += 1
            try:
                sess[step["h"]] = {"obj": out.value, "model": self.actual_matrix(df)}
            except Exception:
                pass
        elif not out.faulted and known is not None and known["kind"] == "sg":
            raise Violation("load_raised", "load:%s:%s" % (api, out.describe()),
                            "fault-free %s of a STOPGAP file with acknowledged content raised %r\n%s" % (api, out.exc, out.tb))
        return []

    def op_foreign_sg(self, world, step):
        path = self.abspath(world, step["path"])
        mat = rows_to_matrix(step["rows"])
        n = len(mat)
        fmt = step["fmt"]
        cols = {}
        for em, sg in RENAME:
            if sg in ("subtomo_num", "tomo_num", "object", "class"):
                cols[sg] = ["%d" % v for v in mat[:, IDX[em]]]
            else:
                cols[sg] = [(fmt % v).strip() for v in mat[:, IDX[em]]]
        cols["motl_idx"] = ["%d" % (i + 1) for i in range(n)]
        cols["halfset"] = list(step["halfsets"])
        labels = [SG_COLS[i] for i in step["order"]]
        rows = [[cols[c][r] for c in labels] for r in range(n)]
        blocks = [{"spec": "data_stopgap_motivelist", "labels": labels, "rows": rows}]
        if step.get("extra_block"):
            blocks.insert(0, {"spec": "data_stopgap_other", "labels": ["a", "b"], "rows": [["1", "x"]]})
        text = starmodel.render(blocks, {"eol": "\r\n" if step["crlf"] else "\n", "numbered": False,
                                         "blank_after_labels": 1, "seps": ["  "]})
        exp = {sg: [float(t) for t in cols[sg]] for _em, sg in RENAME}
        exp["halfset"] = cols["halfset"]
        exp["motl_idx"] = [float(t) for t in cols["motl_idx"]]
        world.fs.put(path, text.encode("ascii"))
        world.mfs[path] = ("known", {"kind": "sg", "exp": exp, "tol": 0.0})
        world.pending_recovery.pop(path, None)
        world.probes["foreign_stopgap_file"] += 1
        if step["order"] != list(range(16)):
            world.probes["foreign_column_order"] += 1
        return [path]

    def op_from_sg_df(self, world, step):
        """a STOPGAP-format table handed over in memory (read elsewhere, then filtered / sorted: any index labels)"""
        sess = world.session(step["sess"])
        mat = rows_to_matrix(step["rows"])
        n = len(mat)
        data = {"motl_idx": np.arange(1, n + 1, dtype=float), "halfset": list(step["halfsets"])}
        for em, sg in RENAME:
            data[sg] = mat[:, IDX[em]]
        df = pd.DataFrame(data, columns=SG_COLS)
        if step.get("index"):
            df.index = step["index"]
            world.probes["sg_table_nondefault_index"] += 1
        fn = cryomotl.StopgapMotl if step["api"] == "StopgapMotl" else cryomotl.stopgap2emmotl
        out = world.call(step["sess"], fn, df)
        world.note("from_sg_df %s -> %s" % (step["api"], out.describe()))
        if not out.ok:
            raise Violation("construct_raised", "from_sg_df:%s:%s" % (step["api"], out.describe()),
                            "%s(<STOPGAP table in memory>) raised %r\n%s" % (step["api"], out.exc, out.tb))
        want = np.full((n, 20), np.nan)
        for em, _sg in RENAME:
            want[:, IDX[em]] = mat[:, IDX[em]]
        self.check_shared(world, out.value.df, want, "%s(STOPGAP table, %s index)" % (step["api"], "non-default" if step.get("index") else "default"),
                          clause="convert_values")
        try:
            sess[step["h"]] = {"obj": out.value, "model": self.actual_matrix(out.value.df)}
        except Exception:
            pass
        world.stats["acks"] += 1
        return []

    def op_stopgap2emmotl(self, world, step):
        sess = world.session(step["sess"])
        src = self.abspath(world, step["src"])
        known = world.known(src)
        dst = self.abspath(world, step["out"]) if step["out"] else None
        kw = {"update_coordinates": step["update"]}
        if step["out"]:
            kw["output_motl_path"] = step["out"]
        out = world.call(step["sess"], cryomotl.stopgap2emmotl, step["src"], faults=step.get("faults", ()), **kw)
        world.note("stopgap2emmotl -> %s" % out.describe())
        judge = known is not None and known["kind"] == "sg"
        if outcome_ack(out):
            df = out.value.df
            if judge:
                mat = self.exp_matrix_from_sg(known["exp"])
                got = self.actual_matrix(df)
                if step["update"]:
                    if got.shape == mat.shape:
                        self.check_updated(got, np.where(np.isnan(mat), 0.0, mat), "stopgap2emmotl(update_coordinates=True)")
                        for ax in ("x", "y", "z", "shift_x", "shift_y", "shift_z"):
                            mat[:, IDX[ax]] = got[:, IDX[ax]]
                self.check_shared(world, df, mat, "stopgap2emmotl(%s)" % src, tol=known["tol"] * (2 if step["update"] else 1),
                                  clause="convert_values")
                world.stats["judged_conversions"] += 1
            try:
                am = self.actual_matrix(df)
                sess[step["h"]] = {"obj": out.value, "model": am}
                if dst:
                    exp32 = np.where(np.isnan(am), 0.0, am).astype(np.float32)
                    world.ack(dst, {"kind": "em", "exp": exp32})
                    self.check_em_bytes(world, dst, exp32)
            except Violation:
                raise
            except Exception:
                if dst:
                    world.indeterminate(dst)
        elif out.faulted:
            if dst:
                world.indeterminate(dst)
        elif judge:
            raise Violation("convert_raised", "stopgap2emmotl:%s" % out.describe(),
                            "fault-free stopgap2emmotl of a file with acknowledged content raised %r\n%s" % (out.exc, out.tb))
        return [dst] if dst else []

    def op_emmotl2stopgap(self, world, step):
        sess = world.session(step["sess"])
        srcname = step["src"]
        if srcname.endswith(".em"):
            spath = self.abspath(world, srcname)
            known = world.known(spath)
            if known is None or known["kind"] != "em":
                mat = None
            else:
                mat = known["exp"].astype(np.float64)
            arg = srcname
        else:
            if srcname not in sess:
                raise Skip()
            h = sess[srcname]
            mat = h["model"].copy()
            arg = self.get_df(h)
        if mat is not None and len(mat) == 0:
            raise Skip()
        dst = self.abspath(world, step["out"]) if step["out"] else None
        kw = {"update_coordinates": step["update"], "reset_index": step["reset_index"]}
        if step["out"]:
            kw["output_motl_path"] = step["out"]
        out = world.call(step["sess"], cryomotl.emmotl2stopgap, arg, faults=step.get("faults", ()), **kw)
        world.note("emmotl2stopgap -> %s" % out.describe())
        if outcome_ack(out):
            df = out.value.df
            if mat is not None:
                m2 = np.where(np.isnan(mat), 0.0, mat)
                got = self.actual_matrix(df)
                if step["update"] and got.shape == m2.shape:
                    self.check_updated(got, m2, "emmotl2stopgap(update_coordinates=True)")
                    for ax in ("x", "y", "z", "shift_x", "shift_y", "shift_z"):
                        m2[:, IDX[ax]] = got[:, IDX[ax]]
                self.check_shared(world, df, m2, "emmotl2stopgap", clause="convert_values")
                world.stats["judged_conversions"] += 1
                sess[step["h"]] = {"obj": out.value, "model": m2}
                if dst:
                    exp = sg_expect(m2, step["reset_index"])
                    world.ack(dst, {"kind": "sg", "exp": exp, "tol": STAR_TOL})
                    self.check_star_bytes(world, dst, exp)
            elif dst:
                world.indeterminate(dst)
                world.pending_recovery.pop(dst, None)
        elif out.faulted:
            if dst:
                world.indeterminate(dst)
        elif mat is not None:
            raise Violation("convert_raised", "emmotl2stopgap:%s" % out.describe(),
                            "fault-free emmotl2stopgap of a %d-particle list raised %r\n%s" % (len(mat), out.exc, out.tb))
        return [dst] if dst else []

    # ------------------------------------------------------------------ shrinking
    def shrink_step(self, step):
        if "rows" in step:
            rows = step["rows"]
            n = len(rows)
            if n > 1:
                for keep in (slice(0, n // 2), slice(n // 2, None), slice(0, n - 1), slice(1, None)):
                    s2 = dict(step, rows=rows[keep])
                    if step.get("index"):
                        idx = step["index"][keep]
                        order = sorted(range(len(idx)), key=lambda i: idx[i])
                        rank = {j: r for r, j in enumerate(order)}
                        s2["index"] = [rank[i] for i in range(len(idx))] if step["index"] != sorted(step["index"]) else list(range(len(idx)))
                    if step.get("halfsets"):
                        s2["halfsets"] = step["halfsets"][keep]
                    yield s2
            if step.get("index") and step["index"] != list(range(n)):
                yield dict(step, index=list(range(n)))
            simple = [[float(i * 20 + j + 1) for j in range(20)] for i in range(n)]
            if rows != simple:
                yield dict(step, rows=simple)
        for k in ("update_coord", "reset_index", "update", "crlf", "extra_block"):
            if step.get(k):
                yield dict(step, **{k: False})
        if step.get("order") and step["order"] != list(range(16)):
            yield dict(step, order=list(range(16)))

"""Cooperative stepping of a numba ``prange`` kernel (DESIGN.md section 3.6).

numba's ``parallel=True`` semantics: the prange index space is partitioned among T workers; scalars
assigned in the loop body are worker-private; arrays are shared.  The simulator reproduces exactly
that with T real Python threads that each run the kernel's Python source (``.py_func``) on the
*same* output arrays, with the module's ``prange`` replaced by an iterator over that worker's share
of the indices.  Threads are parked on a condition variable and released one at a time;
``sys.settrace`` line events inside the kernel's code object are the pre-emption points and a
seeded PRNG decides after each line whether to hand the baton to another worker.  Who runs is never
left to the OS: one seed is one interleaving.
"""
import random
import sys
import threading


class Stepper:
    def __init__(self, seed, workers, preempt_p, stall=None):
        self.rng = random.Random(seed)
        self.T = workers
        self.p = preempt_p
        self.stall = dict(stall or {})     # worker -> number of scheduling decisions it is starved for
        self.cv = threading.Condition()
        self.current = None
        self.alive = set()
        self.local = threading.local()
        self.steps = 0
        self.switches = 0
        self.errors = []
        self.trace_sig = 0                 # rolling hash of (worker, line) pairs: identifies the interleaving

    # ----- prange replacement -----
    def prange(self, *args):
        """the worker's share of whatever index space the kernel hands to prange (the space is the kernel's
        business: a refactoring may iterate over compacted source rows instead of all points)"""
        wid = getattr(self.local, "wid", None)
        if wid is None:
            return range(*args)
        return iter(self.partition(list(range(*args)))[wid])

    # ----- scheduling -----
    def _pick(self, exclude=None):
        cands = sorted(w for w in self.alive if w != exclude)
        free = [w for w in cands if self.stall.get(w, 0) <= 0]
        for w in cands:
            if self.stall.get(w, 0) > 0:
                self.stall[w] -= 1
        pool = free or cands
        return self.rng.choice(pool) if pool else None

    def _yield(self, wid, lineno):
        self.steps += 1
        self.trace_sig = (self.trace_sig * 1000003 + wid * 7919 + lineno) & 0xFFFFFFFFFFFF
        if len(self.alive) > 1 and self.rng.random() < self.p:
            nxt = self._pick(exclude=wid)
            if nxt is not None and nxt != wid:
                with self.cv:
                    self.switches += 1
                    self.current = nxt
                    self.cv.notify_all()
                    while self.current != wid:
                        self.cv.wait()

    def _worker(self, wid, code, fn, args):
        self.local.wid = wid

        def tracer(frame, event, arg):
            if frame.f_code is code:
                return local
            return None

        def local(frame, event, arg):
            if event == "line":
                self._yield(wid, frame.f_lineno)
            return local

        with self.cv:
            while self.current != wid:
                self.cv.wait()
        sys.settrace(tracer)
        try:
            fn(*args)
        except BaseException as e:  # noqa: BLE001 - reported by run()
            self.errors.append((wid, e))
        finally:
            sys.settrace(None)
            with self.cv:
                self.alive.discard(wid)
                if self.alive:
                    self.current = self._pick()
                self.cv.notify_all()

    def run(self, fn, args, partition):
        """fn: the kernel's Python function; partition(items) -> list of T index lists (one per worker), a pure
        function of the items and the step's seed."""
        code = fn.__code__
        self.partition = partition
        self.alive = set(range(self.T))
        threads = [threading.Thread(target=self._worker, args=(w, code, fn, args), daemon=True)
                   for w in range(self.T)]
        for t in threads:
            t.start()
        with self.cv:
            self.current = self._pick()
            self.cv.notify_all()
        for t in threads:
            t.join(timeout=120)
            if t.is_alive():
                raise RuntimeError("stepper: worker did not finish (deadlock in the baton protocol?)")
        if self.errors:
            raise self.errors[0][1]
        return {"steps": self.steps, "switches": self.switches, "sig": self.trace_sig}

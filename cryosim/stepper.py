"""Cooperative stepping of a numba ``prange`` kernel (DESIGN.md section 3.6).

numba's ``parallel=True`` semantics, as far as a kernel author can rely on them: the function runs on
one thread up to the ``prange`` loop; there the index space is partitioned among T workers which run the
loop *body* concurrently; everything bound before the loop (arrays, scalars, scratch buffers) is
**shared** by the workers, a name that is plainly assigned inside the body is **private** to the
iteration (initialised from the value it had before the loop, if any), ``x += ...`` on a name bound
before the loop is a reduction, and the function continues on one thread after the loop (fork/join).

The simulator reproduces exactly that on the kernel's Python source (``.py_func``): the source is
rewritten so that every ``for i in prange(...)`` becomes a nested function ``body(i)`` plus a call of
``Stepper.parallel_for``; the prelude therefore really runs once and what it allocates really is one
object seen by all workers.  ``parallel_for`` partitions the indices (seeded) among T real Python
threads that are parked on a condition variable and released one at a time; ``sys.settrace`` line
events inside the body's code object are the pre-emption points and a seeded PRNG decides after each
line whether to hand the baton to another worker.  ``numba.get_num_threads()`` / ``get_thread_id()``
inside the kernel answer with the simulated T / worker id.  Who runs is never left to the OS: one seed
is one interleaving.
"""
import ast
import hashlib
import inspect
import random
import sys
import textwrap
import threading

_UNSET = object()
_PRANGE_NAMES = ("prange",)


# --------------------------------------------------------------------------- source transformation
def _is_prange_call(node):
    if not isinstance(node, ast.Call):
        return False
    f = node.func
    return (isinstance(f, ast.Name) and f.id in _PRANGE_NAMES) or (isinstance(f, ast.Attribute) and f.attr in _PRANGE_NAMES)


class _Stores(ast.NodeVisitor):
    """names bound by a piece of code, split into plain and augmented assignments (nested defs are opaque)"""

    def __init__(self):
        self.plain, self.aug = set(), set()

    def visit_Name(self, node):
        if isinstance(node.ctx, (ast.Store, ast.Del)):
            self.plain.add(node.id)

    def visit_AugAssign(self, node):
        if isinstance(node.target, ast.Name):
            self.aug.add(node.target.id)
        else:
            self.visit(node.target)
        self.visit(node.value)

    def visit_FunctionDef(self, node):
        self.plain.add(node.name)

    visit_AsyncFunctionDef = visit_FunctionDef

    def visit_Lambda(self, node):
        pass


class _ContinueToReturn(ast.NodeTransformer):
    """``continue`` of the prange loop itself ends the iteration: ``return`` in the body function"""

    def visit_For(self, node):
        return node      # a nested loop owns its own continue/break

    visit_While = visit_For
    visit_FunctionDef = visit_For

    def visit_Continue(self, node):
        return ast.copy_location(ast.Return(value=None), node)


class _Rewriter(ast.NodeTransformer):
    def __init__(self, outer_bound):
        self.outer_bound = outer_bound     # names bound anywhere in the enclosing function (incl. arguments)
        self.k = 0
        self.depth = 0

    def visit_FunctionDef(self, node):
        if self.depth:                     # helper functions defined inside the kernel are left alone
            return node
        self.depth += 1
        self.generic_visit(node)
        self.depth -= 1
        return node

    def visit_For(self, node):
        if not _is_prange_call(node.iter) or not isinstance(node.target, ast.Name) or node.orelse:
            self.generic_visit(node)
            return node
        self.k += 1
        name = "__prange_body_%d" % self.k
        # nested prange loops run serially inside their iteration (as numba does): rewrite them too, parallel_for
        # called from a worker simply loops
        body = []
        for s in node.body:
            r = self.visit(s)
            body.extend(r if isinstance(r, list) else [r])
        body = [_ContinueToReturn().visit(s) for s in body]
        st = _Stores()
        for s in body:
            st.visit(s)
        tgt = node.target.id
        elsewhere = self.outer_bound.get(id(node), set())
        reductions = sorted((st.aug - st.plain - {tgt}) & elsewhere)
        firstprivate = sorted(((st.plain | st.aug) - set(reductions) - {tgt}) & elsewhere)
        pre = []
        if reductions:
            pre.append(ast.Nonlocal(names=list(reductions)))
        args = ast.arguments(
            posonlyargs=[], args=[ast.arg(arg=tgt)] + [ast.arg(arg=n) for n in firstprivate], kwonlyargs=[], kw_defaults=[],
            defaults=[ast.Call(func=ast.Name(id="__cryosim_fp__", ctx=ast.Load()),
                               args=[ast.Call(func=ast.Name(id="locals", ctx=ast.Load()), args=[], keywords=[]),
                                     ast.Constant(value=n)], keywords=[]) for n in firstprivate])
        fdef = ast.FunctionDef(name=name, args=args, body=pre + body, decorator_list=[], returns=None, type_comment=None)
        if sys.version_info >= (3, 12):
            fdef.type_params = []
        call = ast.Expr(value=ast.Call(func=ast.Name(id="__cryosim_pfor__", ctx=ast.Load()),
                                       args=[ast.Call(func=ast.Name(id="range", ctx=ast.Load()), args=node.iter.args, keywords=[]),
                                             ast.Name(id=name, ctx=ast.Load())], keywords=[]))
        out = [ast.copy_location(fdef, node), ast.copy_location(call, node)]
        for o in out:
            ast.fix_missing_locations(o)
        return out


def _bound_outside(fn_node):
    """for every prange loop: the names the enclosing function binds outside that loop's body"""
    out = {}
    args = {a.arg for a in fn_node.args.args + fn_node.args.kwonlyargs + fn_node.args.posonlyargs}
    if fn_node.args.vararg:
        args.add(fn_node.args.vararg.arg)
    if fn_node.args.kwarg:
        args.add(fn_node.args.kwarg.arg)

    class V(ast.NodeVisitor):
        def __init__(self):
            self.loops = []

        def visit_For(self, node):
            if _is_prange_call(node.iter):
                self.loops.append(node)
            self.generic_visit(node)

    v = V()
    v.visit(fn_node)
    for loop in v.loops:
        inside = {id(n) for s in loop.body for n in ast.walk(s)}
        names = set(args)
        for n in ast.walk(fn_node):
            if id(n) in inside:
                continue
            if isinstance(n, ast.Name) and isinstance(n.ctx, ast.Store):
                names.add(n.id)
        out[id(loop)] = names
    return out


_CACHE = {}


def transform(fn):
    """the kernel's Python function rewritten for fork/join stepping; None when it has no prange loop or no source"""
    try:
        src = textwrap.dedent(inspect.getsource(fn))
    except (OSError, TypeError):
        return None
    key = hashlib.sha256(src.encode()).hexdigest()
    if key in _CACHE:
        return _CACHE[key]
    tree = ast.parse(src)
    fnode = tree.body[0]
    if not isinstance(fnode, ast.FunctionDef):
        _CACHE[key] = None
        return None
    fnode.decorator_list = []
    rw = _Rewriter(_bound_outside(fnode))
    tree = rw.visit(tree)
    if rw.k == 0:
        _CACHE[key] = None
        return None
    ast.fix_missing_locations(tree)
    code = compile(tree, "<cryosim stepping of %s>" % getattr(fn, "__name__", "kernel"), "exec")
    _CACHE[key] = (code, fnode.name, ast.unparse(tree))
    return _CACHE[key]


def _fp(local_vars, name):
    return local_vars.get(name, _UNSET)


class _NumbaProxy:
    """the kernel's ``numba`` module: thread-count questions are answered by the simulator"""

    def __init__(self, real, stepper):
        self.__dict__["_real"], self.__dict__["_st"] = real, stepper

    def get_num_threads(self):
        return self._st.T

    def get_thread_id(self):
        return getattr(self._st.local, "wid", None) or 0

    def set_num_threads(self, n):
        return None

    def __getattr__(self, k):
        return getattr(self._real, k)


class Stepper:
    def __init__(self, seed, workers, preempt_p, stall=None):
        self.rng = random.Random(seed)
        self.T = workers
        self.p = preempt_p
        self.stall = dict(stall or {})     # worker -> number of scheduling decisions it is starved for
        self.cv = threading.Condition()
        self.current = None
        self.alive = set()
        self.local = threading.local()
        self.steps = 0
        self.switches = 0
        self.errors = []
        self.trace_sig = 0                 # rolling hash of (worker, line) pairs: identifies the interleaving
        self.regions = 0                   # parallel regions executed
        self.mode = None

    # ----- scheduling -----
    def _pick(self, exclude=None):
        cands = sorted(w for w in self.alive if w != exclude)
        free = [w for w in cands if self.stall.get(w, 0) <= 0]
        for w in cands:
            if self.stall.get(w, 0) > 0:
                self.stall[w] -= 1
        pool = free or cands
        return self.rng.choice(pool) if pool else None

    def _yield(self, wid, lineno):
        self.steps += 1
        self.trace_sig = (self.trace_sig * 1000003 + wid * 7919 + lineno) & 0xFFFFFFFFFFFF
        if len(self.alive) > 1 and self.rng.random() < self.p:
            nxt = self._pick(exclude=wid)
            if nxt is not None and nxt != wid:
                with self.cv:
                    self.switches += 1
                    self.current = nxt
                    self.cv.notify_all()
                    while self.current != wid:
                        self.cv.wait()

    def _worker(self, wid, codes, fn, args):
        self.local.wid = wid

        def tracer(frame, event, arg):
            if frame.f_code in codes:
                return local
            return None

        def local(frame, event, arg):
            if event == "line":
                self._yield(wid, frame.f_lineno)
            return local

        with self.cv:
            while self.current != wid:
                self.cv.wait()
        sys.settrace(tracer)
        try:
            fn(*args)
        except BaseException as e:  # noqa: BLE001 - reported by the caller
            self.errors.append((wid, e))
        finally:
            sys.settrace(None)
            with self.cv:
                self.alive.discard(wid)
                if self.alive:
                    self.current = self._pick()
                self.cv.notify_all()

    def _run_workers(self, codes, jobs):
        """jobs: one (fn, args) per worker; returns when all have finished"""
        self.alive = set(range(len(jobs)))
        threads = [threading.Thread(target=self._worker, args=(w, codes, fn, a), daemon=True) for w, (fn, a) in enumerate(jobs)]
        for t in threads:
            t.start()
        with self.cv:
            self.current = self._pick()
            self.cv.notify_all()
        for t in threads:
            t.join(timeout=120)
            if t.is_alive():
                raise RuntimeError("stepper: worker did not finish (deadlock in the baton protocol?)")
        if self.errors:
            raise self.errors[0][1]

    # ----- fork/join execution of a rewritten kernel -----
    def parallel_for(self, rng_, body):
        if getattr(self.local, "wid", None) is not None:      # a prange nested in an iteration runs serially there
            for i in rng_:
                body(i)
            return
        self.regions += 1
        shares = self.partition(list(rng_))

        def work(share):
            for i in share:
                body(i)

        self._run_workers({body.__code__}, [(work, (sh,)) for sh in shares])

    # ----- legacy mode: every worker runs the whole function on its share (kernels that cannot be rewritten) -----
    def prange(self, *args):
        wid = getattr(self.local, "wid", None)
        if wid is None:
            return range(*args)
        return iter(self.partition(list(range(*args)))[wid])

    def run(self, fn, args, partition):
        """fn: the kernel's Python function; partition(items) -> list of T index lists (one per worker), a pure
        function of the items and the step's seed."""
        self.partition = partition
        tr = transform(fn)
        if tr is None:
            self.mode = "whole_function_per_worker"
            self._run_workers({fn.__code__}, [(fn, args)] * self.T)
        else:
            self.mode = "fork_join"
            code, name, _src = tr
            g = dict(fn.__globals__)
            g["__cryosim_pfor__"] = self.parallel_for
            g["__cryosim_fp__"] = _fp
            import numba as _nb
            for k, v in list(g.items()):
                if v is _nb:
                    g[k] = _NumbaProxy(_nb, self)
                elif v is getattr(_nb, "get_num_threads", None):
                    g[k] = lambda: self.T
                elif v is getattr(_nb, "get_thread_id", None):
                    g[k] = lambda: getattr(self.local, "wid", None) or 0
            exec(code, g)
            g[name](*args)
        return {"steps": self.steps, "switches": self.switches, "sig": self.trace_sig, "regions": self.regions, "mode": self.mode}

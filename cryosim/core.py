"""cryosim core: world, guarded calls, event log, run loop, replay, minimisation.

A *run* is a pure function of (property, seed, tier, faulty-flag) and the code under test.
A *trace* is the concrete list of steps a run executed; replaying a trace does not consult any
PRNG for what the trace fixes.  See /verif/DESIGN.md sections 3.1, 3.2, 3.5, 3.7.
"""
import gc
import hashlib
import json
import os
import sys
import time as _time
import traceback
import warnings

import numpy as np

from . import simfs
from . import clock
from .prng import Rng, derive
from .simfs import SimCrash, SimFS, ROOT


class Violation(Exception):
    """The property does not hold on this run.  `clause` names the oracle clause, `sig` is the
    short signature used to match known findings, `detail` is human-readable."""

    def __init__(self, clause, sig, detail):
        super().__init__("%s [%s] %s" % (clause, sig, detail))
        self.clause = clause
        self.sig = sig
        self.detail = detail


class HarnessError(Exception):
    """Something went wrong in the machinery itself (never reported as a VIOLATION)."""


class Skip(Exception):
    """The step's dependencies do not resolve in this world (used by replay / ddmin)."""


class _Null:
    def write(self, s):
        return len(s)

    def flush(self):
        pass

    def isatty(self):
        return False


_NULL = _Null()


def jdump(obj):
    return json.dumps(obj, sort_keys=True, separators=(",", ":"), default=_jdefault)


def _jdefault(o):
    if isinstance(o, (np.integer,)):
        return int(o)
    if isinstance(o, (np.floating,)):
        return float(o)
    if isinstance(o, np.ndarray):
        return o.tolist()
    if isinstance(o, (set, frozenset)):
        return sorted(o)
    if isinstance(o, bytes):
        return o.hex()
    raise TypeError("not JSON serialisable: %r" % type(o))


def sha(obj):
    if not isinstance(obj, (bytes, bytearray)):
        obj = jdump(obj).encode()
    return hashlib.sha256(obj).hexdigest()[:16]


def digest_array(a):
    a = np.ascontiguousarray(a)
    return sha(str(a.dtype).encode() + str(a.shape).encode() + a.tobytes())


def digest_df(df):
    parts = [",".join(map(str, df.columns)).encode(), str(len(df)).encode()]
    for c in df.columns:
        col = df[c]
        try:
            parts.append(np.ascontiguousarray(col.to_numpy(dtype=float)).tobytes())
        except (ValueError, TypeError):
            parts.append("|".join(map(str, col.tolist())).encode())
    return sha(b"\x00".join(parts))


class Outcome:
    __slots__ = ("ok", "value", "exc", "crashed", "fired", "io", "nprims", "tb")

    def __init__(self):
        self.ok = False
        self.value = None
        self.exc = None
        self.crashed = False
        self.fired = []
        self.io = []
        self.nprims = 0
        self.tb = None

    @property
    def clean(self):
        """Returned normally and no fault took effect inside it: an *acknowledged* call."""
        return self.ok and not self.fired

    @property
    def faulted(self):
        return bool(self.fired) or self.crashed

    def describe(self):
        if self.ok:
            return "ok"
        if self.crashed:
            return "crash"
        return type(self.exc).__name__


def _strip_tb(e):
    seen = set()
    x = e
    while x is not None and id(x) not in seen:
        seen.add(id(x))
        x.__traceback__ = None
        x = x.__cause__ or x.__context__
    return e


_GC_READY = False


def _unraisable(args):
    if isinstance(args.exc_value, SimCrash):
        return
    sys.__unraisablehook__(args)


sys.unraisablehook = _unraisable


def deterministic_gc():
    """Automatic cyclic GC runs at allocation-count thresholds, i.e. at times no seed controls.
    Freeze what exists, switch it off, and collect explicitly at step boundaries instead."""
    global _GC_READY
    if not _GC_READY:
        gc.collect()
        gc.freeze()
        gc.disable()
        _GC_READY = True


class World:
    """Process + disk state of one simulated run."""

    def __init__(self, prop, cfg, seed):
        self.prop = prop
        self.cfg = cfg
        self.seed = seed
        self.fs = SimFS(bufsize=cfg.get("bufsize"))
        self.fs.mtime_mode = cfg.get("mtime_mode", "fine")
        self.sessions = {}
        self.model = {}
        self.mfs = {}            # ModelFS: path -> ("known", value) | ("absent",) | ("indet",)
        self.log = []
        self.probes = simfs._Counter()
        self.stats = simfs._Counter()
        self.fs_states = set()
        self.sets = {}             # named sets of things reached (e.g. distinct thread schedules), counted in evidence
        self.shape = []
        self.step_no = -1
        self.cur = None
        self.pending_recovery = {}   # path -> step_no at which it became indeterminate
        simfs.mount(self.fs)
        clock.install()
        clock.reset()
        self.fs.mkdir_raw(ROOT + "/work")
        self.fs.cwd = ROOT + "/work"

    # ----- sessions -----
    def session(self, name):
        return self.sessions.setdefault(name, {})

    def restart(self, name):
        """The session's process exits; only SimFS state survives."""
        self.sessions.pop(name, None)
        gc.collect()
        n = self.fs.reap_handles(name)
        if n:
            self.probes["leaked_handle_at_boundary"] += n
        self.stats["restarts"] += 1

    # ----- the guarded call: real cryoCAT code runs only inside this -----
    def call(self, session, fn, *args, faults=(), npseed=0, **kw):
        out = Outcome()
        fs = self.fs
        scratch = _scratch_cwd()
        clock.advance()
        np.random.seed(npseed & 0xFFFFFFFF)
        old_stdout = sys.stdout
        sys.stdout = _NULL
        fs.begin_call(session, faults)
        try:
            with warnings.catch_warnings():
                warnings.simplefilter("ignore")
                try:
                    out.value = fn(*args, **kw)
                    out.ok = True
                except SimCrash:
                    out.crashed = True
                except Exception as e:  # library code failing is an observation, not a harness error
                    _unseen_io_guard(e)
                    # formatting a traceback makes linecache stat() source files, some under relative names
                    # ("pandas/_libs/parsers.pyx") that resolve into the virtual cwd: that is the harness, not the
                    # code under test, so it must neither count as I/O primitives nor trip an armed fault
                    fs.active = False
                    try:
                        out.tb = traceback.format_exc(limit=-6)
                    finally:
                        fs.active = True
                    out.exc = _strip_tb(e)
            # Objects kept alive only by the failed call's frames (e.g. a half-written MrcFile) are
            # finalised *now*, inside the call, as in a script that catches the error and moves on;
            # cyclic garbage holding Sim handles is collected here too, so that no finaliser ever
            # runs at a time the scheduler did not choose.
            if fs.open_handles:
                gc.collect()
        finally:
            out.io, out.fired, out.nprims = fs.end_call()
            sys.stdout = old_stdout
        left = simfs._real["listdir"](scratch)
        if left:
            for name in left:
                try:
                    simfs._real["remove"](os.path.join(scratch, name))
                except OSError:
                    pass
            raise HarnessError("the code under test created %r in the real working directory: file I/O by relative path that "
                               "bypasses Python's open()/os.open() (C-level, e.g. ndarray.tofile(name)) is invisible to the "
                               "simulated disk - no verdict is possible for this tree" % sorted(left))
        if "crash" in out.fired and not out.crashed:
            # the crash fired inside a finaliser (close() from __del__), where Python swallows even
            # BaseException: the process is dead all the same
            out.crashed, out.ok, out.value, out.exc = True, False, None, None
        self.stats["api_calls"] += 1
        if out.fired:
            self.stats["faulted_calls"] += 1
        if out.crashed:
            self.stats["crashes"] += 1
            self.restart(session)
        elif out.fired and not all(k in BENIGN_FAULTS for k in out.fired):
            self.step_faulted = True      # the process lives on with whatever the failed call left in memory
        if out.ok and out.fired and not all(k in BENIGN_FAULTS for k in out.fired):
            self.probes["swallowed_fault"] += 1
        for p in fs.foreign_touched:  # the foreign actor (toctou) changed these, not the call
            self.cur["foreign"].add(p)
            if p in self.mfs or p in self.workload_paths():
                self.indeterminate(p)
            # a name outside the workload's namespace (e.g. the temp-file name an atomic writer probes for) is the
            # library's own business: no recovery obligation and no collateral judgement attaches to it
        self.cur["io"].extend([list(x) for x in out.io])
        self.cur["out"].append(out.describe())
        return out

    # ----- ModelFS helpers -----
    def ack(self, path, value):
        self.mfs[path] = ("known", value)
        self.stats["acks"] += 1
        if path in self.pending_recovery:
            del self.pending_recovery[path]
            self.probes["recovery_after_fault"] += 1

    def workload_paths(self):
        try:
            return set(self.prop.paths(self))
        except Exception:  # noqa: BLE001
            return set()

    def indeterminate(self, path):
        self.mfs[path] = ("indet",)
        self.pending_recovery.setdefault(path, self.step_no)

    def known(self, path):
        m = self.mfs.get(path)
        return m[1] if m and m[0] == "known" else None

    def oracle(self, n=1):
        self.stats["oracle_evals"] += n

    def note(self, text):
        self.cur["res"].append(str(text))

    def reached(self, name, item):
        self.sets.setdefault(name, set()).add(item)

    # ----- step execution -----
    def apply(self, step):
        self.step_no += 1
        self.step_faulted = False
        self.cur = {"n": self.step_no, "op": step["op"], "sess": step.get("sess"), "args": sha(step),
                    "io": [], "out": [], "res": [], "foreign": set()}
        before = self.fs.files()
        kind = step["op"]
        try:
            if kind.startswith("env."):
                self.apply_env(step)
                targets = set(step.get("targets", ()))
            else:
                targets = self.prop.apply(self, step)
                targets = set(targets or ())
        except Skip:
            self.cur["out"].append("skip")
            targets = None
        foreign = self.cur.pop("foreign")
        if targets is not None:
            targets |= foreign
            after = self.fs.files()
            for p in set(before) | set(after):
                if p in targets:
                    continue
                if before.get(p) != after.get(p):
                    what = "created" if p not in before else ("removed" if p not in after else "modified")
                    if p not in self.mfs:
                        # a file the workload knows nothing about (a side file the library itself keeps, e.g. the
                        # band.em that bandpass drops into the cwd): none of the properties speaks about such files,
                        # so this is counted, not judged
                        self.probes["side_file_" + what] += 1
                        continue
                    raise Violation("collateral_damage", "%s:%s" % (step["op"], what),
                                    "step %d (%s) %s %s, which it was not asked to write" % (
                                        self.step_no, step["op"], what, p))
        self.cur["fs"] = sha(self.fs.digest_items())
        self.fs_states.add(self.cur["fs"])
        self.shape.append(step["op"] + ("!" + "+".join(sorted(f["kind"] for f in step.get("faults", ())))
                                        if step.get("faults") else ""))
        self.log.append(self.cur)

    def apply_env(self, step):
        op = step["op"]
        fs = self.fs
        if op == "env.restart":
            self.restart(step["sess"])
            self.prop.on_restart(self, step["sess"])
        elif op == "env.foreign_put":
            fs.put(step["path"], bytes.fromhex(step["hex"]))
            self.indeterminate(step["path"])
            self.probes["stale_target"] += 1
        elif op == "env.foreign_delete":
            if step["path"] in fs.nodes:
                fs.delete(step["path"])
                self.probes["missing_input"] += 1
            self.mfs[step["path"]] = ("absent",)
        elif op == "env.capacity":
            fs.capacity = step["bytes"]
        elif op == "env.handle_budget":
            fs.handle_budget = step["n"]
        elif op == "env.readonly":
            if step["on"]:
                fs.readonly_dirs.add(step["dir"])
            else:
                fs.readonly_dirs.discard(step["dir"])
        elif op == "env.listdir_order":
            fs.list_seed = step["seed"]
        elif op == "env.cwd":
            fs.mkdir_raw(step["dir"])
            fs.cwd = step["dir"]
            self.probes["cwd_change"] += 1
        elif op == "env.heal":
            fs.capacity = None
            fs.handle_budget = None
            fs.readonly_dirs.clear()
            self.stats["heals"] += 1
        else:
            raise HarnessError("unknown env op %r" % op)

    def digest(self):
        return sha(self.log)


# faults that a correct stack must hide completely: a call that returns normally although one of
# these fired is still an acknowledged call.
BENIGN_FAULTS = ("eintr", "short_write", "short_read", "listdir_order")


_SCRATCH = {}


def _scratch_cwd():
    """the *real* working directory while cryoCAT code runs: a private empty scratch directory per process, so that
    I/O the seam cannot see (C code opening a relative name) neither lands in /verif nor goes unnoticed.  All of them
    live under one base directory that the top-level process removes when it exits."""
    pid = os.getpid()
    d = _SCRATCH.get(pid)
    if d is None:
        base = os.environ.get("CRYOSIM_SCRATCH_BASE")
        if not base or not os.path.isdir(base):
            import atexit
            import shutil
            import tempfile
            base = tempfile.mkdtemp(prefix="cryosim-cwd-")
            os.environ["CRYOSIM_SCRATCH_BASE"] = base
            atexit.register(lambda base=base, owner=pid: os.getpid() == owner and shutil.rmtree(base, ignore_errors=True))
        d = os.path.join(base, str(pid))
        try:
            simfs._real["mkdir"](d)
        except FileExistsError:
            pass
        _SCRATCH.clear()
        _SCRATCH[pid] = d
    try:
        if simfs._real["getcwd"]() != d:
            simfs._real["chdir"](d)
    except OSError:
        simfs._real["chdir"](d)
    return d


def _unseen_io_guard(e):
    """An OSError about a path *inside* the simulated disk that was not raised by the simulated disk itself comes
    from C code that went to the real OS (where /simfs does not exist): the seam cannot serve it, so nothing the
    call did can be judged.  Reported as a harness limit (exit 2), never as a violation."""
    if not isinstance(e, OSError):
        return
    names = [n for n in (getattr(e, "filename", None), getattr(e, "filename2", None)) if isinstance(n, (str, bytes))]
    names = [n.decode("utf-8", "replace") if isinstance(n, bytes) else n for n in names]
    if not any(n == ROOT or n.startswith(ROOT + "/") for n in names):
        return
    tb = e.__traceback__
    inner, last = None, None
    while tb is not None:
        inner, last = tb.tb_frame.f_code.co_filename, tb
        tb = tb.tb_next
    if inner is not None and os.path.basename(inner) == "simfs.py":
        return
    if last is not None:
        # raised by a Python `raise` statement (library code refusing on its own) or by C code called from that frame?
        import dis
        try:
            op = next((i.opname for i in dis.get_instructions(last.tb_frame.f_code) if i.offset == last.tb_lasti), "")
        except Exception:  # noqa: BLE001
            op = ""
        if op.startswith("RAISE") or op == "RERAISE":
            return
    if isinstance(e, SimOSErrorMarker):
        return
    raise HarnessError("the code under test asked the *real* OS for %r (%s, innermost frame %s): file I/O by path that "
                       "bypasses Python's open()/os.* (C-level, e.g. ndarray.tofile(path), h5py) cannot be served by the "
                       "simulated disk - no verdict is possible for this tree" % (names, e, inner))


class SimOSErrorMarker:
    """mixin reserved for simulated-disk errors raised outside simfs.py (none today)"""


def outcome_ack(out):
    """True when the call returned normally and only benign (must-be-hidden) faults fired."""
    return out.ok and all(k in BENIGN_FAULTS for k in out.fired)


# --------------------------------------------------------------------------- generation
FAULT_KINDS = {
    # kind: (primitive class, max index drawn)
    "enospc": ("write", 3),
    "eio_write": ("write", 3),
    "eio_read": ("read", 4),
    "short_write": ("write", 3),
    "short_read": ("read", 4),
    "eintr": ("any_rw", 4),
    "crash": ("any", 14),
    "open_fail": ("open", 2),
    "toctou": ("stat", 3),
}


def gen_faults(rng, cfg, hint=None):
    """Draw 0..2 armed faults for one API call.  `hint` gives approximate per-class primitive counts of
    the call, so that faults are placed inside the operation (a read fault on a pure write tests nothing)."""
    kinds = cfg.get("fault_kinds") or []
    if hint:
        def fits(k):
            on = FAULT_KINDS[k][0]
            if on == "any":
                return True
            if on == "any_rw":
                return "read" in hint or "write" in hint
            if on in ("stat", "open"):
                return True
            return on in hint
        kinds = [k for k in kinds if fits(k)]
    if not kinds or not rng.chance(cfg.get("fault_rate", 0.0)):
        return []
    out = []
    for _ in range(1 if rng.chance(0.85) else 2):
        kind = rng.pick(kinds)
        on, hi = FAULT_KINDS[kind]
        if on == "any_rw":
            opts = [c for c in ("read", "write") if not hint or c in hint]
            on = rng.pick(opts or ["read", "write"])
        if hint and on in hint:
            hi = max(0, hint[on] - 1)
        f = {"kind": kind, "on": on, "at": rng.geometric(0.45, hi)}
        if kind in ("enospc", "short_write", "short_read"):
            f["frac"] = rng.pick([0.0, 0.25, 0.5, 0.9])
        if kind == "crash":
            f["torn"] = rng.chance(0.5)
            f["frac"] = rng.pick([0.1, 0.5, 0.9])
        if kind == "open_fail":
            import errno
            f["errno"] = rng.pick([errno.EMFILE, errno.EACCES, errno.EIO])
        out.append(f)
    return out


def gen_env(rng, cfg, world, paths, sessions):
    """Draw one environment step (restart / foreign actor / resource change)."""
    kinds = cfg.get("env_kinds") or ["env.restart"]
    k = rng.pick(kinds)
    if k == "env.restart":
        return {"op": k, "sess": rng.pick(sessions)}
    if k == "env.foreign_put":
        n = rng.pick([0, 1, 100, 511, 512, 513, 700, 2112, 5000])
        blob = bytes(rng.randrange(256) for _ in range(min(n, 64))) * (n // 64 + 1)
        return {"op": k, "path": rng.pick(paths), "hex": blob[:n].hex(), "targets": None}
    if k == "env.foreign_delete":
        return {"op": k, "path": rng.pick(paths)}
    if k == "env.capacity":
        return {"op": k, "bytes": world.fs.used() + rng.pick([0, 100, 600, 3000, 20000])}
    if k == "env.handle_budget":
        return {"op": k, "n": rng.pick([0, 1, 2, 4])}
    if k == "env.readonly":
        return {"op": k, "dir": os.path.dirname(rng.pick(paths)), "on": True}
    if k == "env.listdir_order":
        return {"op": k, "seed": rng.randrange(1 << 30)}
    if k == "env.cwd":
        return {"op": k, "dir": rng.pick([ROOT + "/work", ROOT + "/elsewhere", ROOT + "/data"])}
    if k == "env.heal":
        return {"op": k}
    raise HarnessError("unknown env kind %r" % k)


def fix_env_targets(step):
    if step["op"] in ("env.foreign_put", "env.foreign_delete"):
        step["targets"] = [step["path"]]
    return step


# --------------------------------------------------------------------------- run / replay
class RunResult:
    def __init__(self):
        self.seed = None
        self.digest = None
        self.nsteps = 0
        self.stats = {}
        self.probes = {}
        self.fired = {}
        self.fs_states = []
        self.sets = {}
        self.shape = None
        self.violation = None   # dict(clause, sig, detail, step)
        self.trace = None       # full replay dict, only when a violation occurred or sample requested
        self.nontrivial = False
        self.wall = 0.0
        self.prims = 0


def _finish(world, res, steps, cfg, prop, seed, tier, faulty, keep_trace):
    res.digest = world.digest()
    res.nsteps = len(world.log)
    res.stats = dict(world.stats)
    res.probes = dict(world.probes)
    res.fired = dict(world.fs.fired)
    res.fs_states = sorted(world.fs_states)
    res.sets = {k: sorted(v) for k, v in world.sets.items()}
    res.shape = sha(world.shape)
    res.prims = world.fs.prims_total
    res.nontrivial = (world.stats["api_calls"] >= 2 and world.stats["acks"] >= 1
                      and world.stats["oracle_evals"] >= 1)
    if keep_trace or res.violation:
        res.trace = {"property": prop.ID, "seed": seed, "tier": tier, "faulty": faulty, "config": cfg,
                     "steps": steps, "violation": res.violation, "digest": res.digest,
                     "log": world.log}
    return res


def execute(prop, cfg, steps_iter, seed, tier, faulty, keep_trace=False):
    """Run steps produced by steps_iter(world) (a generator receiving the world) to completion."""
    t0 = _time.perf_counter()
    deterministic_gc()
    res = RunResult()
    res.seed = seed
    world = World(prop, cfg, seed)
    steps = []
    try:
        prop.init(world)
        for step in steps_iter(world):
            steps.append(step)
            try:
                world.apply(step)
            except Violation as v:
                res.violation = {"clause": v.clause, "sig": v.sig, "detail": v.detail, "step": world.step_no}
                if world.cur is not None and (not world.log or world.log[-1] is not world.cur):
                    world.cur["out"].append("VIOLATION " + v.clause)
                    world.cur.pop("foreign", None)
                    world.log.append(world.cur)
                break
        else:
            try:
                prop.final(world)
            except Violation as v:
                res.violation = {"clause": v.clause, "sig": v.sig, "detail": v.detail, "step": world.step_no}
    finally:
        world.sessions.clear()
        gc.collect()
        simfs.mount(None)
    try:
        _finish(world, res, steps, cfg, prop, seed, tier, faulty, keep_trace)
    finally:
        world.fs.destroy()       # the simulated disk's memory files and descriptors go with the run
    res.wall = _time.perf_counter() - t0
    return res


def isolated(fn, *args, **kw):
    """Run fn(*args) in a forked child and return its (pickled) result.

    One run = one process image: whatever process-global state the code under test keeps (module-level
    caches, class attributes, numba/numpy globals) starts from the pristine post-import state in every
    run and every replay, so a run is a pure function of its seed and the code - also when the code
    under test grows a cache.  The parent never executes cryoCAT code itself.
    """
    import pickle
    if os.environ.get("CRYOSIM_NO_ISOLATION"):
        return fn(*args, **kw)
    r, w = os.pipe()
    pid = os.fork()
    if pid == 0:
        code = 0
        try:
            os.close(r)
            try:
                payload = pickle.dumps(("ok", fn(*args, **kw)))
            except BaseException:  # noqa: BLE001 - shipped to the parent as a harness error
                payload = pickle.dumps(("err", traceback.format_exc()))
            with os.fdopen(w, "wb") as f:
                f.write(payload)
        except BaseException:  # noqa: BLE001
            code = 3
        finally:
            os._exit(code)
    os.close(w)
    with os.fdopen(r, "rb") as f:
        data = f.read()
    _, status = os.waitpid(pid, 0)
    if not data:
        raise HarnessError("isolated run died without a result (wait status %r)" % status)
    kind, val = pickle.loads(data)
    if kind == "err":
        raise HarnessError("exception inside an isolated run:\n" + val)
    return val


def run_history(prop, jobs, tier):
    """Execute several seeded runs one after the other in *this* process image and return the result of
    the last one: used to reproduce violations that depend on process-global state left behind by
    earlier runs (module-level caches in the code under test)."""
    res = None
    for seed, faulty in jobs:
        res = run_seed(prop, seed, tier, bool(faulty), keep_trace=True)
    return res


def run_seed(prop, seed, tier, faulty, keep_trace=False):
    rng = Rng(seed)
    cfg = prop.config(rng.fork("cfg"), tier, faulty)
    cfg.setdefault("bufsize", rng.fork("buf").pick([16, 64, 512, 8192, 8192]))
    cfg.setdefault("mtime_mode", rng.fork("mtime").pick(["fine", "fine", "fine", "coarse", "coarse"]))
    gen_rng = rng.fork("gen")
    env_rng = rng.fork("env")
    flt_rng = rng.fork("flt")
    aft_rng = rng.fork("aftermath")

    def steps_iter(world):
        for _ in range(cfg["max_steps"]):
            if cfg.get("env_rate", 0) and env_rng.chance(cfg["env_rate"]):
                step = fix_env_targets(gen_env(env_rng, cfg, world, prop.paths(world), prop.session_names(world)))
            else:
                step = prop.gen_step(world, gen_rng)
                if step is None:
                    return
                if step.get("io"):
                    fl = gen_faults(flt_rng, cfg, step.get("hint"))
                    if fl:
                        step["faults"] = fl
                step.pop("io", None)
                step.pop("hint", None)
            yield step
            # aftermath of a failed call: the objects it worked on are still in the caller's hands; bias the workload
            # towards fault-free calls that use exactly those objects next (faults without workload test nothing)
            if getattr(world, "step_faulted", False) and hasattr(prop, "gen_aftermath") and aft_rng.chance(0.7):
                for follow in prop.gen_aftermath(world, step, aft_rng) or ():
                    world.probes["aftermath_step"] += 1
                    yield follow
        # recovery phase (bounded liveness): faults stop, every path left indeterminate must accept a
        # fault-free write followed by a fault-free load that satisfies the property in full
        if faulty and hasattr(prop, "gen_recovery"):
            if world.pending_recovery or world.fs.capacity is not None or world.fs.handle_budget is not None \
                    or world.fs.readonly_dirs:
                yield {"op": "env.heal"}
                for step in prop.gen_recovery(world, rng.fork("recovery")):
                    yield step

    return execute(prop, cfg, steps_iter, seed, tier, faulty, keep_trace)


def replay(prop, trace):
    return isolated(_replay, prop, trace)


def _replay(prop, trace):
    steps = trace["steps"]

    def steps_iter(world):
        for s in steps:
            yield json.loads(json.dumps(s))

    return execute(prop, trace["config"], steps_iter, trace.get("seed", 0), trace.get("tier", "quick"),
                   trace.get("faulty", False), keep_trace=True)


# --------------------------------------------------------------------------- minimisation
def same_class(v, w):
    return v is not None and w is not None and v["clause"] == w["clause"] and v["sig"] == w["sig"]


def minimise(prop, trace, budget_s=60.0):
    """Shrink a failing trace while the same violation class persists (DESIGN 3.7)."""
    deadline = _time.monotonic() + budget_s
    target = trace["violation"]
    best = dict(trace)
    best["steps"] = list(trace["steps"][: target["step"] + 1])

    def fails(steps):
        t = dict(best)
        t["steps"] = steps
        try:
            r = replay(prop, t)
        except HarnessError:
            return None  # a shrunk candidate that leaves the generator's guards (not a reproduction)
        return r if same_class(r.violation, target) else None

    r0 = fails(best["steps"])
    if r0 is None:  # truncation changed the outcome (final() clause): keep all steps
        best["steps"] = list(trace["steps"])
        r0 = fails(best["steps"])
        if r0 is None:
            return trace, False
    # ddmin over steps
    n = 2
    steps = best["steps"]
    while len(steps) >= 2 and _time.monotonic() < deadline:
        chunk = max(1, len(steps) // n)
        reduced = False
        for i in range(0, len(steps), chunk):
            cand = steps[:i] + steps[i + chunk:]
            if cand and fails(cand) is not None:
                steps = cand
                n = max(n - 1, 2)
                reduced = True
                break
            if _time.monotonic() > deadline:
                break
        if not reduced:
            if chunk == 1:
                break
            n = min(len(steps), n * 2)
    # drop faults one by one
    for i, s in enumerate(steps):
        fl = s.get("faults") or []
        j = 0
        while j < len(fl) and _time.monotonic() < deadline:
            s2 = dict(s)
            s2["faults"] = fl[:j] + fl[j + 1:]
            if not s2["faults"]:
                del s2["faults"]
            cand = steps[:i] + [s2] + steps[i + 1:]
            if fails(cand) is not None:
                steps = cand
                s = s2
                fl = s.get("faults") or []
            else:
                j += 1
    # shrink arguments (property-specific)
    progress = True
    while progress and _time.monotonic() < deadline:
        progress = False
        for i, s in enumerate(steps):
            for s2 in prop.shrink_step(s):
                if _time.monotonic() > deadline:
                    break
                cand = steps[:i] + [s2] + steps[i + 1:]
                if fails(cand) is not None:
                    steps = cand
                    progress = True
                    break
            if progress:
                break
    best["steps"] = steps
    r = replay(prop, best)
    if not same_class(r.violation, target):
        return trace, False
    out = r.trace
    out["minimised_from"] = len(trace["steps"])
    return out, True


# --------------------------------------------------------------------------- property base class
class Property:
    ID = "C00"
    SESSIONS = ["s0"]

    def config(self, rng, tier, faulty):
        raise NotImplementedError

    def init(self, world):
        pass

    def paths(self, world):
        return [ROOT + "/work/a"]

    def session_names(self, world):
        return list(self.SESSIONS)

    def gen_step(self, world, rng):
        raise NotImplementedError

    def apply(self, world, step):
        raise NotImplementedError

    def on_restart(self, world, sess):
        pass

    def gen_aftermath(self, world, step, rng):
        """what the caller does right after a call failed (non-crash fault): by default it simply tries the same call
        again, now without faults - the most ordinary reaction there is.  Properties override this to go on working
        with the very objects the failed call used."""
        if step["op"].startswith("env."):
            return
        retry = json.loads(json.dumps({k: v for k, v in step.items() if k != "faults"}))
        yield retry

    def final(self, world):
        pass

    def shrink_step(self, step):
        return ()

    @staticmethod
    def abspath(world, p):
        return p if p.startswith("/") else world.fs.cwd.rstrip("/") + "/" + p

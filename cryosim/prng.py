"""Seeded, forkable PRNG. Every choice in a simulated run derives from one integer.

`Rng(seed).fork(label)` gives an independent child stream whose seed is a pure function of
(parent seed, label), so adding draws in one component never shifts another component.
Nothing here reads a clock, the OS entropy pool or the hash seed.
"""
import hashlib
import random


def derive(seed, label):
    h = hashlib.sha256(("%d/%s" % (seed, label)).encode()).digest()
    return int.from_bytes(h[:8], "big")


class Rng(random.Random):
    def __init__(self, seed):
        self._seed0 = int(seed)
        super().__init__(self._seed0)

    @property
    def seed0(self):
        return self._seed0

    def fork(self, label):
        return Rng(derive(self._seed0, str(label)))

    # convenience helpers ------------------------------------------------
    def chance(self, p):
        return self.random() < p

    def pick(self, seq):
        return seq[self.randrange(len(seq))]

    def weighted(self, pairs):
        """pairs: list of (item, weight)."""
        tot = sum(w for _, w in pairs)
        x = self.random() * tot
        acc = 0.0
        for it, w in pairs:
            acc += w
            if x < acc:
                return it
        return pairs[-1][0]

    def geometric(self, p, cap):
        k = 0
        while k < cap and self.random() > p:
            k += 1
        return k

    def perm(self, n):
        idx = list(range(n))
        self.shuffle(idx)
        return idx
